import LsLemmas.CodecS
/-
  Refinement: the offset-level model of the decoders (LsModel/Codec.lean: Go `int` offsets,
  bounds-checked slice expressions, uint64/int conversions) computes exactly the functions of the
  remaining input defined in LsLemmas/CodecS.lean, for every buffer of length < 2^63.
-/
namespace Ls.CodecS
open Ls Ls.Wire Ls.Codec

theorem adv_length {p rest : Bytes} (h : Adv p rest) : rest.length < p.length ∧ rest.length ≤ p.length := by
  obtain ⟨m, h1, h2, rfl⟩ := h
  simp; omega

theorem two63_lt : two63 < two64 := by decide

theorem skipTag_eq (p : Bytes) (wt : Nat) (h63 : p.length < two63) :
    skipTag p wt = omap (fun rest => ((p.length - rest.length : Nat) : Int)) (skipS p wt) := by
  have h64 := two63_lt
  unfold skipTag skipS
  by_cases h0 : wt = wtVarint
  · simp only [h0, if_true]
    cases hd : decodeVarint p with
    | ok vn =>
      obtain ⟨v, n⟩ := vn
      obtain ⟨h1, h2, h3, h4⟩ := decodeVarint_bounds p v n hd
      simp only [bind_ok, omap]
      rw [if_neg (by omega)]
      simp; omega
    | err e => simp [omap]
    | panic => simp [omap]
    | hang => simp [omap]
  · simp only [h0, if_false]
    by_cases h2 : wt = wtLen
    · simp only [h2, if_true]
      cases hd : decodeVarint p with
      | ok vn =>
        obtain ⟨v, n⟩ := vn
        obtain ⟨h1, h2, h3, h4⟩ := decodeVarint_bounds p v n hd
        simp only [bind_ok]
        have hu : toUInt64 ((p.length : Int) - (n : Int)) = p.length - n := by
          have : ((p.length : Int) - (n : Int)) = ((p.length - n : Nat) : Int) := by omega
          rw [this, toUInt64_nat _ (by omega)]
        rw [hu]
        by_cases hs : v > p.length - n
        · simp [hs, omap]
        · have hv : v < two63 := by omega
          simp only [hs, if_false, omap]
          rw [toInt64_small v hv, wrapInt64_small _ (by omega) (by omega), if_neg (by omega)]
          simp; omega
      | err e => simp [omap]
      | panic => simp [omap]
      | hang => simp [omap]
    · simp only [h2, if_false]
      by_cases h5 : wt = wtFixed32
      · simp only [h5, if_true]
        by_cases hl : 4 > p.length
        · rw [if_pos (by omega)]; simp [hl, omap]
        · rw [if_neg (by omega)]; simp [hl, omap]; omega
      · simp only [h5, if_false]
        by_cases h1 : wt = wtFixed64
        · simp only [h1, if_true]
          by_cases hl : 8 > p.length
          · rw [if_pos (by omega)]; simp [hl, omap]
          · rw [if_neg (by omega)]; simp [hl, omap]; omega
        · simp [h1, omap]

theorem skipS_adv (p : Bytes) (wt : Nat) (rest : Bytes) (h : skipS p wt = .ok rest) : Adv p rest := by
  unfold skipS at h
  split at h
  · cases hd : decodeVarint p with
    | ok vn =>
      obtain ⟨v, n⟩ := vn
      obtain ⟨h1, h2, h3, h4⟩ := decodeVarint_bounds p v n hd
      simp [hd] at h
      exact ⟨n, h1, h2, h.symm⟩
    | err e => simp [hd] at h
    | panic => simp [hd] at h
    | hang => simp [hd] at h
  · split at h
    · cases hd : decodeVarint p with
      | ok vn =>
        obtain ⟨v, n⟩ := vn
        obtain ⟨h1, h2, h3, h4⟩ := decodeVarint_bounds p v n hd
        simp [hd] at h
        split at h
        · simp at h
        · injection h with h
          exact ⟨n + v, by omega, by omega, h.symm⟩
      | err e => simp [hd] at h
      | panic => simp [hd] at h
      | hang => simp [hd] at h
    · split at h
      · split at h
        · simp at h
        · injection h with h; exact ⟨4, by omega, by omega, h.symm⟩
      · split at h
        · split at h
          · simp at h
          · injection h with h; exact ⟨8, by omega, by omega, h.symm⟩
        · simp at h


theorem adv_of_drop (p : Bytes) (m : Nat) (h1 : 1 ≤ m) (h2 : m ≤ p.length) : Adv p (p.drop m) :=
  ⟨m, h1, h2, rfl⟩

theorem adv_trans_drop {p rest : Bytes} (n : Nat) (hn : n ≤ p.length) (h : Adv (p.drop n) rest) : Adv p rest := by
  obtain ⟨m, h1, h2, rfl⟩ := h
  simp only [List.length_drop] at h2
  exact ⟨n + m, by omega, by omega, by simp [List.drop_drop]⟩

/-- position arithmetic after a step from offset `k` that left `rest` -/
theorem adv_pos {data rest : Bytes} {k : Nat} (hk : k ≤ data.length) (h : Adv (data.drop k) rest) :
    data.drop (data.length - rest.length) = rest ∧ k < data.length - rest.length ∧
    data.length - rest.length ≤ data.length ∧ (rest = [] ↔ data.length - rest.length = data.length) := by
  obtain ⟨m, h1, h2, rfl⟩ := h
  simp only [List.length_drop] at h2
  have hl : ((data.drop k).drop m).length = data.length - (k + m) := by simp [List.drop_drop]
  rw [hl]
  have e : data.length - (data.length - (k + m)) = k + m := by omega
  rw [e]
  refine ⟨by simp [List.drop_drop], by omega, by omega, ?_⟩
  rw [List.drop_drop, List.drop_eq_nil_iff]
  omega

def liftStep {σ : Type} (len : Nat) : Outcome (σ × Bytes) → Outcome (Int × σ) :=
  omap (fun (x : σ × Bytes) => (((len - x.2.length : Nat) : Int), x.1))

theorem kvStep_eq (data : Bytes) (k : Nat) (kv : KV) (h63 : data.length < two63) (hk : k ≤ data.length) :
    kvStep data (k : Int) kv = liftStep data.length (kvStepS (data.drop k) kv) := by
  have h64 := two63_lt
  unfold kvStep kvStepS liftStep
  rw [sliceFrom_eq data k k rfl hk]
  simp only [bind_ok]
  rcases hd : decodeVarint (data.drop k) with ⟨v, n⟩ | e | _ | _
  rotate_left
  · simp [omap]
  · simp [omap]
  · simp [omap]
  obtain ⟨h1, h2, h3, h4⟩ := decodeVarint_bounds _ v n hd
  simp only [List.length_drop] at h2
  simp only [bind_ok]
  have hs1 : sliceFrom data ((k : Int) + (n : Int)) = .ok (data.drop (k + n)) :=
    sliceFrom_eq data _ (k + n) (by omega) (by omega)
  by_cases hkv : v / 8 = Gen.fieldKVKey ∨ v / 8 = Gen.fieldKVValue
  · simp only [hkv, if_true]
    by_cases hw : v % 8 ≠ wtLen
    · simp [hw, omap]
    · simp only [hw, if_false, hs1, bind_ok, List.drop_drop]
      rcases hd2 : decodeVarint (data.drop (k + n)) with ⟨v2, n2⟩ | e | _ | _
      rotate_left
      · simp [omap]
      · simp [omap]
      · simp [omap]
      obtain ⟨g1, g2, g3, g4⟩ := decodeVarint_bounds _ v2 n2 hd2
      simp only [List.length_drop] at g2
      simp only [bind_ok, List.length_drop]
      have hu : toUInt64 ((data.length : Int) - ((k : Int) + (n : Int) + (n2 : Int))) = data.length - (k + n + n2) := by
        have : ((data.length : Int) - ((k : Int) + (n : Int) + (n2 : Int))) = ((data.length - (k + n + n2) : Nat) : Int) := by omega
        rw [this, toUInt64_nat _ (by omega)]
      rw [hu]
      by_cases hlt : data.length - (k + n + n2) < v2
      · simp [hlt, omap]
      · have hv : v2 < two63 := by omega
        simp only [hlt, if_false]
        rw [toInt64_small v2 hv, sliceLH_eq data _ _ (k + n + n2) (k + n + n2 + v2) (by omega) (by omega) (by omega) (by omega)]
        simp only [bind_ok, Nat.add_sub_cancel_left]
        by_cases hkey : v / 8 = Gen.fieldKVKey
        · simp [hkey, omap]; omega
        · simp [hkey, omap]; omega
  · simp only [hkv, if_false]
    by_cases hfl : v / 8 = Gen.fieldKVFlags
    · simp only [hfl, if_true]
      by_cases hw : v % 8 ≠ wtVarint
      · simp [hw, omap]
      · simp only [hw, if_false, hs1, bind_ok, List.drop_drop]
        rcases hd2 : decodeVarint (data.drop (k + n)) with ⟨v2, n2⟩ | e | _ | _
        rotate_left
        · simp [omap]
        · simp [omap]
        · simp [omap]
        obtain ⟨g1, g2, g3, g4⟩ := decodeVarint_bounds _ v2 n2 hd2
        simp only [List.length_drop] at g2
        simp [omap]; omega
    · simp only [hfl, if_false]
      by_cases hts : v / 8 = Gen.fieldKVTimestampNano
      · simp only [hts, if_true]
        by_cases hw : v % 8 ≠ wtFixed64
        · simp [hw, omap]
        · simp only [hw, if_false, List.length_drop]
          by_cases hl : data.length - k - n < 8
          · rw [if_pos (by omega)]; simp [hl, omap]
          · rw [if_neg (by omega), sliceLH_eq data _ _ (k + n) (k + n + 8) (by omega) (by omega) (by omega) (by omega)]
            simp [hl, omap, List.drop_drop]; omega
      · simp only [hts, if_false, hs1, bind_ok]
        rw [skipTag_eq _ _ (by simp; omega)]
        rcases hsk : skipS (data.drop (k + n)) (v % 8) with rest | e | _ | _
        rotate_left
        · simp [omap, List.drop_drop, hsk]
        · simp [omap, List.drop_drop, hsk]
        · simp [omap, List.drop_drop, hsk]
        obtain ⟨_, hp2, hp3, _⟩ := adv_pos (by omega) (skipS_adv _ _ _ hsk)
        simp [omap, List.drop_drop, hsk]; omega

theorem kvStepS_adv (p : Bytes) (kv kv' : KV) (rest : Bytes)
    (h : kvStepS p kv = .ok (kv', rest)) : Adv p rest := by
  unfold kvStepS at h
  rcases hd : decodeVarint p with ⟨v, n⟩ | e | _ | _
  rotate_left
  · simp [hd] at h
  · simp [hd] at h
  · simp [hd] at h
  obtain ⟨h1, h2, h3, h4⟩ := decodeVarint_bounds _ v n hd
  simp only [hd, bind_ok] at h
  split at h
  · split at h
    · simp at h
    · rcases hd2 : decodeVarint (p.drop n) with ⟨v2, n2⟩ | e | _ | _
      rotate_left
      · simp [hd2] at h
      · simp [hd2] at h
      · simp [hd2] at h
      obtain ⟨g1, g2, g3, g4⟩ := decodeVarint_bounds _ v2 n2 hd2
      simp only [List.length_drop] at g2
      simp only [hd2, bind_ok, List.length_drop, List.drop_drop] at h
      split at h
      · simp at h
      · split at h <;>
        · injection h with h; injection h with _ h
          exact ⟨n + n2 + v2, by omega, by omega, h.symm⟩
  · split at h
    · split at h
      · simp at h
      · rcases hd2 : decodeVarint (p.drop n) with ⟨v2, n2⟩ | e | _ | _
        rotate_left
        · simp [hd2] at h
        · simp [hd2] at h
        · simp [hd2] at h
        obtain ⟨g1, g2, g3, g4⟩ := decodeVarint_bounds _ v2 n2 hd2
        simp only [List.length_drop] at g2
        simp only [hd2, bind_ok, List.drop_drop] at h
        injection h with h; injection h with _ h
        exact ⟨n + n2, by omega, by omega, h.symm⟩
    · split at h
      · split at h
        · simp at h
        · split at h
          · simp at h
          · simp only [List.length_drop, List.drop_drop] at *
            injection h with h; injection h with _ h
            exact ⟨n + 8, by omega, by omega, h.symm⟩
      · rcases hsk : skipS (p.drop n) (v % 8) with r | e | _ | _
        rotate_left
        · simp [hsk] at h
        · simp [hsk] at h
        · simp [hsk] at h
        simp only [hsk, bind_ok] at h
        injection h with h; injection h with _ h
        subst h
        exact adv_trans_drop n h2 (skipS_adv _ _ _ hsk)

theorem kvLoop_eq (data : Bytes) (h63 : data.length < two63) :
    ∀ (fuel k : Nat) (kv : KV), k ≤ data.length →
      kvLoop data fuel (k : Int) kv = kvLoopS fuel (data.drop k) kv := by
  intro fuel
  induction fuel with
  | zero => intros; rfl
  | succ fuel ih =>
    intro k kv hk
    unfold kvLoop kvLoopS
    rw [kvStep_eq data k kv h63 hk]
    rcases hs : kvStepS (data.drop k) kv with ⟨kv', rest⟩ | e | _ | _
    rotate_left
    · simp [liftStep, omap]
    · simp [liftStep, omap]
    · simp [liftStep, omap]
    obtain ⟨hp1, hp2, hp3, hp4⟩ := adv_pos hk (kvStepS_adv _ _ _ _ hs)
    simp only [liftStep, omap]
    by_cases hr : rest = []
    · have := hp4.mp hr
      rw [if_pos (by omega)]; simp [hr]
    · have : ¬ (data.length - rest.length = data.length) := fun h => hr (hp4.mpr h)
      rw [if_neg (by omega), ih _ kv' hp3, hp1]; simp [hr]

theorem kvUnmarshal_eq (data : Bytes) (h63 : data.length < two63) :
    kvUnmarshal data = kvUnmarshalS data := by
  unfold kvUnmarshal kvUnmarshalS
  have := kvLoop_eq data h63 (data.length + 1) 0 kvZero (Nat.zero_le _)
  simpa using this


/-! ### DBI: indexData -/

theorem idxStep_eq (data : Bytes) (k : Nat) (hd0 : DBIHdr) (h63 : data.length < two63) (hk : k ≤ data.length) :
    idxStep data (k : Int) hd0 = liftStep data.length (idxStepS (data.drop k) hd0) := by
  have h64 := two63_lt
  unfold idxStep idxStepS liftStep
  rw [sliceFrom_eq data k k rfl hk]
  simp only [bind_ok]
  rcases hd : decodeVarint (data.drop k) with ⟨v, n⟩ | e | _ | _
  rotate_left
  · simp [omap]
  · simp [omap]
  · simp [omap]
  obtain ⟨h1, h2, h3, h4⟩ := decodeVarint_bounds _ v n hd
  simp only [List.length_drop] at h2
  simp only [bind_ok]
  have hs1 : sliceFrom data ((k : Int) + (n : Int)) = .ok (data.drop (k + n)) :=
    sliceFrom_eq data _ (k + n) (by omega) (by omega)
  by_cases hkv : v / 8 = Gen.fieldDBIEntries ∨ v / 8 = Gen.fieldDBIName ∨ v / 8 = Gen.fieldDBITransform
  · simp only [hkv, if_true]
    by_cases hw : v % 8 ≠ wtLen
    · simp [hw, omap]
    · simp only [hw, if_false, hs1, bind_ok, List.drop_drop]
      rcases hd2 : decodeVarint (data.drop (k + n)) with ⟨v2, n2⟩ | e | _ | _
      rotate_left
      · simp [omap]
      · simp [omap]
      · simp [omap]
      obtain ⟨g1, g2, g3, g4⟩ := decodeVarint_bounds _ v2 n2 hd2
      simp only [List.length_drop] at g2
      simp only [bind_ok, List.length_drop]
      have hu : toUInt64 ((data.length : Int) - ((k : Int) + (n : Int) + (n2 : Int))) = data.length - (k + n + n2) := by
        have : ((data.length : Int) - ((k : Int) + (n : Int) + (n2 : Int))) = ((data.length - (k + n + n2) : Nat) : Int) := by omega
        rw [this, toUInt64_nat _ (by omega)]
      rw [hu]
      by_cases hlt : data.length - (k + n + n2) < v2
      · simp [hlt, omap]
      · have hv : v2 < two63 := by omega
        simp only [hlt, if_false]
        rw [toInt64_small v2 hv, sliceLH_eq data _ _ (k + n + n2) (k + n + n2 + v2) (by omega) (by omega) (by omega) (by omega)]
        simp only [bind_ok, Nat.add_sub_cancel_left]
        by_cases he : v / 8 = Gen.fieldDBIEntries
        · simp [he, omap]; omega
        · by_cases hn : v / 8 = Gen.fieldDBIName
          · simp only [if_neg he, if_pos hn, omap]; simp; omega
          · have ht : v / 8 = Gen.fieldDBITransform := by
              rcases hkv with h | h | h
              · exact absurd h he
              · exact absurd h hn
              · exact h
            simp only [if_neg he, if_neg hn, if_pos ht, omap]; simp; omega
  · simp only [hkv, if_false]
    by_cases hfl : v / 8 = Gen.fieldDBIFlags
    · simp only [hfl, if_true]
      by_cases hw : v % 8 ≠ wtVarint
      · simp [hw, omap]
      · simp only [hw, if_false, hs1, bind_ok, List.drop_drop]
        rcases hd2 : decodeVarint (data.drop (k + n)) with ⟨v2, n2⟩ | e | _ | _
        rotate_left
        · simp [omap]
        · simp [omap]
        · simp [omap]
        obtain ⟨g1, g2, g3, g4⟩ := decodeVarint_bounds _ v2 n2 hd2
        simp only [List.length_drop] at g2
        simp [omap]; omega
    · simp only [hfl, if_false, hs1, bind_ok]
      rw [skipTag_eq _ _ (by simp; omega)]
      rcases hsk : skipS (data.drop (k + n)) (v % 8) with rest | e | _ | _
      rotate_left
      · simp [omap, List.drop_drop, hsk]
      · simp [omap, List.drop_drop, hsk]
      · simp [omap, List.drop_drop, hsk]
      obtain ⟨_, hp2, hp3, _⟩ := adv_pos (by omega) (skipS_adv _ _ _ hsk)
      simp [omap, List.drop_drop, hsk]; omega

theorem idxStepS_adv (p : Bytes) (h0 h' : DBIHdr) (rest : Bytes)
    (h : idxStepS p h0 = .ok (h', rest)) : Adv p rest := by
  unfold idxStepS at h
  rcases hd : decodeVarint p with ⟨v, n⟩ | e | _ | _
  rotate_left
  · simp [hd] at h
  · simp [hd] at h
  · simp [hd] at h
  obtain ⟨h1, h2, h3, h4⟩ := decodeVarint_bounds _ v n hd
  simp only [hd, bind_ok] at h
  split at h
  · split at h
    · simp at h
    · rcases hd2 : decodeVarint (p.drop n) with ⟨v2, n2⟩ | e | _ | _
      rotate_left
      · simp [hd2] at h
      · simp [hd2] at h
      · simp [hd2] at h
      obtain ⟨g1, g2, g3, g4⟩ := decodeVarint_bounds _ v2 n2 hd2
      simp only [List.length_drop] at g2
      simp only [hd2, bind_ok, List.length_drop, List.drop_drop] at h
      split at h
      · simp at h
      · split at h
        · injection h with h; injection h with _ h
          exact ⟨n + n2 + v2, by omega, by omega, h.symm⟩
        · split at h <;>
          · injection h with h; injection h with _ h
            exact ⟨n + n2 + v2, by omega, by omega, h.symm⟩
  · split at h
    · split at h
      · simp at h
      · rcases hd2 : decodeVarint (p.drop n) with ⟨v2, n2⟩ | e | _ | _
        rotate_left
        · simp [hd2] at h
        · simp [hd2] at h
        · simp [hd2] at h
        obtain ⟨g1, g2, g3, g4⟩ := decodeVarint_bounds _ v2 n2 hd2
        simp only [List.length_drop] at g2
        simp only [hd2, bind_ok, List.drop_drop] at h
        injection h with h; injection h with _ h
        exact ⟨n + n2, by omega, by omega, h.symm⟩
    · rcases hsk : skipS (p.drop n) (v % 8) with r | e | _ | _
      rotate_left
      · simp [hsk] at h
      · simp [hsk] at h
      · simp [hsk] at h
      simp only [hsk, bind_ok] at h
      injection h with h; injection h with _ h
      subst h
      exact adv_trans_drop n h2 (skipS_adv _ _ _ hsk)

theorem idxLoop_eq (data : Bytes) (h63 : data.length < two63) :
    ∀ (fuel k : Nat) (h0 : DBIHdr), k ≤ data.length →
      idxLoop data fuel (k : Int) h0 = idxLoopS fuel (data.drop k) h0 := by
  intro fuel
  induction fuel with
  | zero => intros; rfl
  | succ fuel ih =>
    intro k h0 hk
    unfold idxLoop idxLoopS
    by_cases hend : data.drop k = []
    · have : data.length ≤ k := List.drop_eq_nil_iff.mp hend
      rw [if_pos (by omega)]; simp [hend]
    · have : ¬ data.length ≤ k := fun h => hend (List.drop_eq_nil_iff.mpr h)
      rw [if_neg (by omega), idxStep_eq data k h0 h63 hk]
      simp only [hend, if_false]
      rcases hs : idxStepS (data.drop k) h0 with ⟨h', rest⟩ | e | _ | _
      rotate_left
      · simp [liftStep, omap]
      · simp [liftStep, omap]
      · simp [liftStep, omap]
      obtain ⟨hp1, hp2, hp3, hp4⟩ := adv_pos hk (idxStepS_adv _ _ _ _ hs)
      simp only [liftStep, omap]
      rw [ih _ h' hp3, hp1]

theorem indexData_eq (data : Bytes) (h63 : data.length < two63) : indexData data = indexDataS data := by
  unfold indexData indexDataS
  have := idxLoop_eq data h63 (data.length + 1) 0 hdrZero (Nat.zero_le _)
  simpa using this

/-! ### DBI: Next and the caller's loop -/

def nextK (data : Bytes) (r : Option (Int × Nat)) : Outcome (Option (KV × Int)) :=
  match r with
  | none => .ok none
  | some (offset, wt) => do
    let (b, cur') ← nextEntry data offset wt
    let kv ← kvUnmarshal b
    .ok (some (kv, cur'))

theorem dbiNext_def (data : Bytes) (cur : Int) :
    dbiNext data cur = (nextSeek data (data.length + 1) cur >>= nextK data) := rfl

def liftNext (len : Nat) : Outcome (Option (KV × Bytes)) → Outcome (Option (KV × Int)) :=
  omap (fun r => r.map (fun (x : KV × Bytes) => (x.1, ((len - x.2.length : Nat) : Int))))

theorem nextSeek_eq (data : Bytes) (h63 : data.length < two63) :
    ∀ (fuel k : Nat), k ≤ data.length →
      (nextSeek data fuel (k : Int) >>= nextK data) = liftNext data.length (nextS fuel (data.drop k)) := by
  have h64 := two63_lt
  intro fuel
  induction fuel with
  | zero => intros; rfl
  | succ fuel ih =>
    intro k hk
    unfold nextSeek nextS
    by_cases hend : data.drop k = []
    · have : data.length ≤ k := List.drop_eq_nil_iff.mp hend
      rw [if_pos (by omega)]; simp [hend, nextK, liftNext, omap]
    · have hnl : ¬ data.length ≤ k := fun h => hend (List.drop_eq_nil_iff.mpr h)
      rw [if_neg (by omega), sliceFrom_eq data k k rfl hk]
      simp only [hend, if_false]
      rcases hd : decodeVarint (data.drop k) with ⟨v, n⟩ | e | _ | _
      rotate_left
      · simp [liftNext, omap]
      · simp [liftNext, omap]
      · simp [liftNext, omap]
      obtain ⟨h1, h2, h3, h4⟩ := decodeVarint_bounds _ v n hd
      simp only [List.length_drop] at h2
      have hs1 : sliceFrom data ((k : Int) + (n : Int)) = .ok (data.drop (k + n)) :=
        sliceFrom_eq data _ (k + n) (by omega) (by omega)
      simp only [List.drop_drop]
      by_cases hne : v / 8 ≠ Gen.fieldDBIEntries
      · simp only [if_pos hne, hs1]
        rw [skipTag_eq _ _ (by simp; omega)]
        rcases hsk : skipS (data.drop (k + n)) (v % 8) with rest | e | _ | _
        rotate_left
        · simp [omap, liftNext]
        · simp [omap, liftNext]
        · simp [omap, liftNext]
        obtain ⟨hp1, hp2, hp3, _⟩ := adv_pos (by omega) (skipS_adv _ _ _ hsk)
        simp only [omap]
        have : ((k : Int) + (n : Int) + ((data.drop (k + n)).length - rest.length : Nat)) = ((data.length - rest.length : Nat) : Int) := by
          simp only [List.length_drop]; omega
        rw [this, ih _ hp3, hp1]
      · simp only [if_neg hne, bind_ok, nextK, nextEntry]
        by_cases hw : v % 8 ≠ wtLen
        · simp [hw, liftNext, omap]
        · simp only [hw, if_false, hs1, bind_ok]
          rcases hd2 : decodeVarint (data.drop (k + n)) with ⟨v2, n2⟩ | e | _ | _
          rotate_left
          · simp [omap, liftNext]
          · simp [omap, liftNext]
          · simp [omap, liftNext]
          obtain ⟨g1, g2, g3, g4⟩ := decodeVarint_bounds _ v2 n2 hd2
          simp only [List.length_drop] at g2
          simp only [bind_ok, List.length_drop, List.drop_drop]
          have hu : toUInt64 ((data.length : Int) - ((k : Int) + (n : Int) + (n2 : Int))) = data.length - (k + n + n2) := by
            have : ((data.length : Int) - ((k : Int) + (n : Int) + (n2 : Int))) = ((data.length - (k + n + n2) : Nat) : Int) := by omega
            rw [this, toUInt64_nat _ (by omega)]
          rw [hu]
          by_cases hlt : data.length - (k + n + n2) < v2
          · simp [hlt, omap, liftNext]
          · have hv : v2 < two63 := by omega
            simp only [hlt, if_false]
            rw [toInt64_small v2 hv, sliceLH_eq data _ _ (k + n + n2) (k + n + n2 + v2) (by omega) (by omega) (by omega) (by omega)]
            simp only [bind_ok, Nat.add_sub_cancel_left]
            rw [kvUnmarshal_eq _ (by simp; omega)]
            rcases hkv : kvUnmarshalS (List.take v2 (List.drop (k + n + n2) data)) with kv | e | _ | _
            · simp [omap, liftNext]; omega
            · simp [omap, liftNext]
            · simp [omap, liftNext]
            · simp [omap, liftNext]

theorem dbiNext_eq (data : Bytes) (h63 : data.length < two63) (k : Nat) (hk : k ≤ data.length) :
    dbiNext data (k : Int) = liftNext data.length (nextS (data.length + 1) (data.drop k)) := by
  rw [dbiNext_def, nextSeek_eq data h63 _ k hk]

/-- `Next` leaves a proper suffix behind the entry it delivers -/
theorem nextS_adv : ∀ (fuel : Nat) (p : Bytes) (kv : KV) (rest : Bytes),
    nextS fuel p = .ok (some (kv, rest)) → Adv p rest := by
  intro fuel
  induction fuel with
  | zero => intro p kv rest h; simp [nextS] at h
  | succ fuel ih =>
    intro p kv rest h
    unfold nextS at h
    split at h
    · simp at h
    · rcases hd : decodeVarint p with ⟨v, n⟩ | e | _ | _
      rotate_left
      · simp [hd] at h
      · simp [hd] at h
      · simp [hd] at h
      obtain ⟨h1, h2, h3, h4⟩ := decodeVarint_bounds _ v n hd
      simp only [hd] at h
      split at h
      · rcases hsk : skipS (p.drop n) (v % 8) with r | e | _ | _
        rotate_left
        · simp [hsk] at h
        · simp [hsk] at h
        · simp [hsk] at h
        simp only [hsk] at h
        have a1 := adv_trans_drop n h2 (skipS_adv _ _ _ hsk)
        obtain ⟨m1, hm1, hm2, rfl⟩ := a1
        obtain ⟨m2, hn1, hn2, rfl⟩ := ih _ kv rest h
        simp only [List.length_drop] at hn2
        exact ⟨m1 + m2, by omega, by omega, by simp [List.drop_drop]⟩
      · split at h
        · simp at h
        · rcases hd2 : decodeVarint (p.drop n) with ⟨v2, n2⟩ | e | _ | _
          rotate_left
          · simp [hd2] at h
          · simp [hd2] at h
          · simp [hd2] at h
          obtain ⟨g1, g2, g3, g4⟩ := decodeVarint_bounds _ v2 n2 hd2
          simp only [List.length_drop] at g2
          simp only [hd2, List.length_drop, List.drop_drop] at h
          split at h
          · simp at h
          · split at h
            · injection h with h; injection h with h; injection h with _ h
              exact ⟨n + n2 + v2, by omega, by omega, h.symm⟩
            · simp at h
            · simp at h
            · simp at h

theorem dbiIter_eq (data : Bytes) (h63 : data.length < two63) :
    ∀ (fuel k : Nat) (acc : List KV), k ≤ data.length →
      dbiIter data fuel (k : Int) acc = iterS (data.length + 1) fuel (data.drop k) acc := by
  intro fuel
  induction fuel with
  | zero => intros; rfl
  | succ fuel ih =>
    intro k acc hk
    unfold dbiIter iterS
    rw [dbiNext_eq data h63 k hk]
    rcases hn : nextS (data.length + 1) (data.drop k) with r | e | _ | _
    rotate_left
    · simp [liftNext, omap]
    · simp [liftNext, omap]
    · simp [liftNext, omap]
    cases r with
    | none => simp [liftNext, omap]
    | some x =>
      obtain ⟨kv, rest⟩ := x
      obtain ⟨hp1, hp2, hp3, _⟩ := adv_pos hk (nextS_adv _ _ _ _ hn)
      simp only [liftNext, omap, Option.map]
      rw [ih _ _ hp3, hp1]

theorem dbiEntries_eq (data : Bytes) (h63 : data.length < two63) : dbiEntries data = dbiEntriesS data := by
  unfold dbiEntries dbiEntriesS
  have := dbiIter_eq data h63 (data.length + 1) 0 [] (Nat.zero_le _)
  simp only [Int.natCast_zero, List.drop_zero] at this
  rw [this]
  rcases iterS (data.length + 1) (data.length + 1) data [] with ⟨l, o⟩
  cases o <;> rfl


/-! ### csproto.Decoder -/

theorem drop_nil_iff (p : Bytes) (k : Nat) : p.drop k = [] ↔ p.length ≤ k := List.drop_eq_nil_iff

theorem decTag_eq (p : Bytes) (k : Nat) (hk : k ≤ p.length) :
    decTag p (k : Int) = omap (fun (x : Nat × Nat × Bytes) => (x.1, x.2.1, ((p.length - x.2.2.length : Nat) : Int)))
      (decTagS (p.drop k)) := by
  unfold decTag decTagS
  by_cases hend : p.drop k = []
  · have := (drop_nil_iff p k).mp hend
    rw [if_pos (by omega)]; simp [hend, omap]
  · have : ¬ p.length ≤ k := fun h => hend ((drop_nil_iff p k).mpr h)
    rw [if_neg (by omega), sliceFrom_eq p k k rfl hk]
    simp only [hend, if_false, bind_ok]
    rcases hd : decodeVarint (p.drop k) with ⟨v, n⟩ | e | _ | _
    rotate_left
    · simp [omap]
    · simp [omap]
    · simp [omap]
    obtain ⟨h1, h2, h3, h4⟩ := decodeVarint_bounds _ v n hd
    simp only [List.length_drop] at h2
    simp only [bind_ok]
    split
    · simp [omap]
    · simp [omap, List.drop_drop]; omega

theorem decTagS_adv (p : Bytes) (t w : Nat) (rest : Bytes) (h : decTagS p = .ok (t, w, rest)) : Adv p rest := by
  unfold decTagS at h
  split at h
  · simp at h
  · rcases hd : decodeVarint p with ⟨v, n⟩ | e | _ | _
    rotate_left
    · simp [hd] at h
    · simp [hd] at h
    · simp [hd] at h
    obtain ⟨h1, h2, h3, h4⟩ := decodeVarint_bounds _ v n hd
    simp only [hd, bind_ok] at h
    split at h
    · simp at h
    · injection h with h; injection h with _ h; injection h with _ h
      exact ⟨n, h1, h2, h.symm⟩

def liftVal {α : Type} (len : Nat) : Outcome (α × Bytes) → Outcome (α × Int) :=
  omap (fun (x : α × Bytes) => (x.1, ((len - x.2.length : Nat) : Int)))

theorem decVarint_eq (p : Bytes) (k : Nat) (hk : k ≤ p.length) :
    decVarint p (k : Int) = liftVal p.length (decVarintS (p.drop k)) := by
  unfold decVarint decVarintS liftVal
  by_cases hend : p.drop k = []
  · have := (drop_nil_iff p k).mp hend
    rw [if_pos (by omega)]; simp [hend, omap]
  · have : ¬ p.length ≤ k := fun h => hend ((drop_nil_iff p k).mpr h)
    rw [if_neg (by omega), sliceFrom_eq p k k rfl hk]
    simp only [hend, if_false, bind_ok]
    rcases hd : decodeVarint (p.drop k) with ⟨v, n⟩ | e | _ | _
    rotate_left
    · simp [omap]
    · simp [omap]
    · simp [omap]
    obtain ⟨h1, h2, h3, h4⟩ := decodeVarint_bounds _ v n hd
    simp only [List.length_drop] at h2
    simp only [bind_ok]
    split
    · simp [omap]
    · simp [omap, List.drop_drop]; omega

theorem decVarintS_adv (p : Bytes) (v : Nat) (rest : Bytes) (h : decVarintS p = .ok (v, rest)) : Adv p rest := by
  unfold decVarintS at h
  split at h
  · simp at h
  · rcases hd : decodeVarint p with ⟨v, n⟩ | e | _ | _
    rotate_left
    · simp [hd] at h
    · simp [hd] at h
    · simp [hd] at h
    obtain ⟨h1, h2, h3, h4⟩ := decodeVarint_bounds _ v n hd
    simp only [hd, bind_ok] at h
    split at h
    · simp at h
    · injection h with h; injection h with _ h
      exact ⟨n, h1, h2, h.symm⟩

theorem getUInt32_eq (p : Bytes) (k : Nat) (wt : Nat) (hk : k ≤ p.length) :
    getUInt32 p (k : Int) wt = liftVal p.length (getUInt32S (p.drop k) wt) := by
  unfold getUInt32 getUInt32S
  split
  · simp [liftVal, omap]
  · rw [decVarint_eq p k hk]
    rcases hd : decVarintS (p.drop k) with ⟨v, r⟩ | e | _ | _
    rotate_left
    · simp [liftVal, omap]
    · simp [liftVal, omap]
    · simp [liftVal, omap]
    simp only [liftVal, omap, bind_ok]
    split <;> simp [omap]

theorem getUInt32S_adv (p : Bytes) (wt v : Nat) (rest : Bytes) (h : getUInt32S p wt = .ok (v, rest)) : Adv p rest := by
  unfold getUInt32S at h
  split at h
  · simp at h
  · rcases hd : decVarintS p with ⟨v, r⟩ | e | _ | _
    rotate_left
    · simp [hd] at h
    · simp [hd] at h
    · simp [hd] at h
    simp only [hd, bind_ok] at h
    split at h
    · simp at h
    · injection h with h; injection h with _ h
      subst h; exact decVarintS_adv _ _ _ hd

theorem getInt64_eq (p : Bytes) (k : Nat) (wt : Nat) (hk : k ≤ p.length) :
    getInt64 p (k : Int) wt = liftVal p.length (getInt64S (p.drop k) wt) := by
  unfold getInt64 getInt64S
  split
  · simp [liftVal, omap]
  · rw [decVarint_eq p k hk]
    rcases hd : decVarintS (p.drop k) with ⟨v, r⟩ | e | _ | _ <;> simp [liftVal, omap]

theorem getInt64S_adv (p : Bytes) (wt : Nat) (v : Int) (rest : Bytes) (h : getInt64S p wt = .ok (v, rest)) : Adv p rest := by
  unfold getInt64S at h
  split at h
  · simp at h
  · rcases hd : decVarintS p with ⟨v, r⟩ | e | _ | _
    rotate_left
    · simp [hd] at h
    · simp [hd] at h
    · simp [hd] at h
    simp only [hd, bind_ok] at h
    injection h with h; injection h with _ h
    subst h; exact decVarintS_adv _ _ _ hd

theorem getFixed64_eq (p : Bytes) (k : Nat) (wt : Nat) (hk : k ≤ p.length) :
    getFixed64 p (k : Int) wt = liftVal p.length (getFixed64S (p.drop k) wt) := by
  unfold getFixed64 getFixed64S
  split
  · simp [liftVal, omap]
  · by_cases hend : p.drop k = []
    · have := (drop_nil_iff p k).mp hend
      rw [if_pos (by omega)]; simp [hend, liftVal, omap]
    · have : ¬ p.length ≤ k := fun h => hend ((drop_nil_iff p k).mpr h)
      rw [if_neg (by omega), sliceFrom_eq p k k rfl hk]
      simp only [hend, if_false, bind_ok, List.length_drop]
      split
      · simp [liftVal, omap]
      · simp [liftVal, omap, List.drop_drop]; omega

theorem getFixed64S_adv (p : Bytes) (wt v : Nat) (rest : Bytes) (h : getFixed64S p wt = .ok (v, rest)) : Adv p rest := by
  unfold getFixed64S at h
  split at h
  · simp at h
  · split at h
    · simp at h
    · split at h
      · simp at h
      · injection h with h; injection h with _ h
        exact ⟨8, by omega, by omega, h.symm⟩

theorem getBytes_eq (p : Bytes) (maxLen : Nat) (k : Nat) (wt : Nat) (hk : k ≤ p.length)
    (hmax : maxLen < two63) :
    getBytes p maxLen (k : Int) wt = liftVal p.length (getBytesS (p.drop k) maxLen wt) := by
  unfold getBytes getBytesS decBytes
  split
  · simp [liftVal, omap]
  · by_cases hend : p.drop k = []
    · have := (drop_nil_iff p k).mp hend
      rw [if_pos (by omega)]; simp [hend, liftVal, omap]
    · have : ¬ p.length ≤ k := fun h => hend ((drop_nil_iff p k).mpr h)
      rw [if_neg (by omega), sliceFrom_eq p k k rfl hk]
      simp only [hend, if_false, bind_ok]
      rcases hd : decodeVarint (p.drop k) with ⟨l, n⟩ | e | _ | _
      rotate_left
      · simp [liftVal, omap]
      · simp [liftVal, omap]
      · simp [liftVal, omap]
      obtain ⟨h1, h2, h3, h4⟩ := decodeVarint_bounds _ l n hd
      simp only [List.length_drop] at h2
      simp only [bind_ok, List.length_drop]
      by_cases hn : n = 0
      · omega
      · simp only [hn, if_false]
        by_cases hl : l > maxLen
        · simp [hl, liftVal, omap]
        · simp only [hl, if_false]
          rw [toInt64_small l (by omega)]
          by_cases hov : n + l > p.length - k
          · rw [if_pos (by omega)]; simp [hov, liftVal, omap]
          · rw [if_neg (by omega), sliceLH_eq p _ _ (k + n) (k + n + l) (by omega) (by omega) (by omega) (by omega)]
            simp [hov, liftVal, omap, List.drop_drop]
            omega

theorem getBytesS_adv (p : Bytes) (maxLen wt : Nat) (b rest : Bytes)
    (h : getBytesS p maxLen wt = .ok (b, rest)) : Adv p rest ∧ b.length ≤ p.length := by
  unfold getBytesS at h
  split at h
  · simp at h
  · split at h
    · simp at h
    · rcases hd : decodeVarint p with ⟨l, n⟩ | e | _ | _
      rotate_left
      · simp [hd] at h
      · simp [hd] at h
      · simp [hd] at h
      obtain ⟨h1, h2, h3, h4⟩ := decodeVarint_bounds _ l n hd
      simp only [hd, bind_ok] at h
      split at h
      · simp at h
      · split at h
        · simp at h
        · split at h
          · simp at h
          · injection h with h; injection h with hb h
            refine ⟨⟨n + l, by omega, by omega, h.symm⟩, ?_⟩
            subst hb; simp; omega

theorem sliceLH_ok (p : Bytes) (lo hi : Int) (h0 : 0 ≤ lo) (h1 : lo ≤ hi) (h2 : hi ≤ p.length) :
    ∃ b, sliceLH p lo hi = .ok b := by
  simp [sliceLH, h0, h1, h2]

theorem decSkip_eq (p : Bytes) (maxLen : Nat) (k : Nat) (tag wt : Nat) (hk : k ≤ p.length)
    (hmax : maxLen < two63) :
    decSkip p maxLen (k : Int) tag wt
      = omap (fun rest => ((p.length - rest.length : Nat) : Int)) (decSkipS (p.drop k) maxLen wt) := by
  unfold decSkip decSkipS
  by_cases hend : p.drop k = []
  · have := (drop_nil_iff p k).mp hend
    rw [if_pos (by omega)]; simp [hend, omap]
  · have hlt : ¬ p.length ≤ k := fun h => hend ((drop_nil_iff p k).mpr h)
    rw [if_neg (by omega)]
    simp only [hend, if_false]
    have hsz : (0 : Int) ≤ (sizeOfTagKey tag : Int) := by omega
    generalize (sizeOfTagKey tag : Int) = sz at hsz
    have fin : ∀ (sk : Nat), k + sk ≤ p.length →
        (if (k : Int) + (sk : Int) > (p.length : Int) then (Outcome.err Err.eof : Outcome Int) else do
          let _ ← sliceLH p (if (k : Int) - sz < 0 then 0 else (k : Int) - sz) ((k : Int) + (sk : Int))
          Outcome.ok ((k : Int) + (sk : Int))) = .ok ((k + sk : Nat) : Int) := by
      intro sk hsk
      rw [if_neg (by omega)]
      obtain ⟨b, hb⟩ := sliceLH_ok p (if (k : Int) - sz < 0 then 0 else (k : Int) - sz) ((k : Int) + (sk : Int))
        (by split <;> omega) (by split <;> omega) (by omega)
      rw [hb]; simp
    have finE : ∀ (sk : Nat), ¬ (k + sk ≤ p.length) →
        (if (k : Int) + (sk : Int) > (p.length : Int) then (Outcome.err Err.eof : Outcome Int) else do
          let _ ← sliceLH p (if (k : Int) - sz < 0 then 0 else (k : Int) - sz) ((k : Int) + (sk : Int))
          Outcome.ok ((k : Int) + (sk : Int))) = .err .eof := by
      intro sk hsk
      rw [if_pos (by omega)]
    by_cases h0 : wt = wtVarint
    · simp only [h0, if_true]
      rw [sliceFrom_eq p k k rfl hk]
      simp only [bind_ok]
      rcases hd : decodeVarint (p.drop k) with ⟨v, n⟩ | e | _ | _
      rotate_left
      · simp [omap]
      · simp [omap]
      · simp [omap]
      obtain ⟨h1, h2, h3, h4⟩ := decodeVarint_bounds _ v n hd
      simp only [List.length_drop] at h2
      simp only [bind_ok]
      rw [fin n (by omega)]
      simp only [List.length_drop]
      rw [if_neg (by omega)]
      simp [omap, List.drop_drop]; omega
    · simp only [h0, if_false]
      by_cases h1 : wt = wtFixed64
      · simp only [h1, if_true]
        by_cases hl : 8 > p.length - k
        · have := finE 8 (by omega)
          push_cast at this
          simp only [List.length_drop, hl, if_true, omap]
          exact this
        · have := fin 8 (by omega)
          push_cast at this
          simp only [List.length_drop, hl, if_false, omap, List.drop_drop]
          rw [this]; congr 1; omega
      · simp only [h1, if_false]
        by_cases h2 : wt = wtLen
        · simp only [h2, if_true]
          rw [sliceFrom_eq p k k rfl hk]
          simp only [bind_ok]
          rcases hd : decodeVarint (p.drop k) with ⟨l, n⟩ | e | _ | _
          rotate_left
          · simp [omap]
          · simp [omap]
          · simp [omap]
          obtain ⟨g1, g2, g3, g4⟩ := decodeVarint_bounds _ l n hd
          simp only [List.length_drop] at g2
          simp only [bind_ok, List.length_drop]
          by_cases hn : n = 0
          · omega
          · simp only [hn, if_false]
            by_cases hl : l > maxLen
            · simp [hl, omap]
            · simp only [hl, if_false]
              rw [toInt64_small l (by omega)]
              by_cases hov : n + l > p.length - k
              · have := finE (n + l) (by omega)
                simp only [Int.natCast_add] at this
                simp only [hov, if_true, omap]
                exact this
              · have := fin (n + l) (by omega)
                simp only [Int.natCast_add] at this
                simp only [hov, if_false, omap, List.drop_drop]
                rw [this]; simp; omega
        · simp only [h2, if_false]
          by_cases h5 : wt = wtFixed32
          · simp only [h5, if_true]
            by_cases hl : 4 > p.length - k
            · have := finE 4 (by omega)
              push_cast at this
              simp only [List.length_drop, hl, if_true, omap]
              exact this
            · have := fin 4 (by omega)
              push_cast at this
              simp only [List.length_drop, hl, if_false, omap, List.drop_drop]
              rw [this]; congr 1; omega
          · simp [h5, omap]

theorem decSkipS_adv (p : Bytes) (maxLen wt : Nat) (rest : Bytes)
    (h : decSkipS p maxLen wt = .ok rest) : Adv p rest := by
  unfold decSkipS at h
  split at h
  · simp at h
  · split at h
    · rcases hd : decodeVarint p with ⟨v, n⟩ | e | _ | _
      rotate_left
      · simp [hd] at h
      · simp [hd] at h
      · simp [hd] at h
      obtain ⟨h1, h2, h3, h4⟩ := decodeVarint_bounds _ v n hd
      simp only [hd, bind_ok] at h
      split at h
      · simp at h
      · injection h with h; exact ⟨n, h1, h2, h.symm⟩
    · split at h
      · split at h
        · simp at h
        · injection h with h; exact ⟨8, by omega, by omega, h.symm⟩
      · split at h
        · rcases hd : decodeVarint p with ⟨l, n⟩ | e | _ | _
          rotate_left
          · simp [hd] at h
          · simp [hd] at h
          · simp [hd] at h
          obtain ⟨h1, h2, h3, h4⟩ := decodeVarint_bounds _ l n hd
          simp only [hd, bind_ok] at h
          split at h
          · simp at h
          · split at h
            · simp at h
            · split at h
              · simp at h
              · injection h with h; exact ⟨n + l, by omega, by omega, h.symm⟩
        · split at h
          · split at h
            · simp at h
            · injection h with h; exact ⟨4, by omega, by omega, h.symm⟩
          · simp at h


/-! ### Meta.Unmarshal, Snapshot.Unmarshal -/

theorem defaultMax_lt : defaultMaxFieldLen < two63 := by decide
theorem snapshotMax_lt : snapshotMaxFieldLen < two63 := by decide

theorem metaStep_eq (p : Bytes) (k : Nat) (m : Meta) (hk : k ≤ p.length) :
    metaStep p (k : Int) m = liftStep p.length (metaStepS (p.drop k) m) := by
  have hmaxd := defaultMax_lt
  unfold metaStep metaStepS liftStep
  rw [decTag_eq p k hk]
  rcases ht : decTagS (p.drop k) with ⟨tag, wt, p1⟩ | e | _ | _
  rotate_left
  · simp [omap]
  · simp [omap]
  · simp [omap]
  obtain ⟨hp1, hp2, hp3, _⟩ := adv_pos hk (decTagS_adv _ _ _ _ ht)
  simp only [omap, bind_ok]
  by_cases h1 : tag = Gen.fieldMetaGenerationID
  · simp only [if_pos h1]
    rw [getBytes_eq p _ _ wt hp3 hmaxd, hp1]
    rcases getBytesS p1 defaultMaxFieldLen wt with ⟨s, r⟩ | e | _ | _ <;> simp [liftVal, omap]
  simp only [if_neg h1]
  by_cases h2 : tag = Gen.fieldMetaInstanceID
  · simp only [if_pos h2]
    rw [getBytes_eq p _ _ wt hp3 hmaxd, hp1]
    rcases getBytesS p1 defaultMaxFieldLen wt with ⟨s, r⟩ | e | _ | _ <;> simp [liftVal, omap]
  simp only [if_neg h2]
  by_cases h3 : tag = Gen.fieldMetaHostname
  · simp only [if_pos h3]
    rw [getBytes_eq p _ _ wt hp3 hmaxd, hp1]
    rcases getBytesS p1 defaultMaxFieldLen wt with ⟨s, r⟩ | e | _ | _ <;> simp [liftVal, omap]
  simp only [if_neg h3]
  by_cases h4 : tag = Gen.fieldMetaLMDBTxnID
  · simp only [if_pos h4]
    rw [getInt64_eq p _ wt hp3, hp1]
    rcases getInt64S p1 wt with ⟨s, r⟩ | e | _ | _ <;> simp [liftVal, omap]
  simp only [if_neg h4]
  by_cases h5 : tag = Gen.fieldMetaTimestampNano
  · simp only [if_pos h5]
    rw [getFixed64_eq p _ wt hp3, hp1]
    rcases getFixed64S p1 wt with ⟨s, r⟩ | e | _ | _ <;> simp [liftVal, omap]
  simp only [if_neg h5]
  by_cases h7 : tag = Gen.fieldMetaDatabaseName
  · simp only [if_pos h7]
    rw [getBytes_eq p _ _ wt hp3 hmaxd, hp1]
    rcases getBytesS p1 defaultMaxFieldLen wt with ⟨s, r⟩ | e | _ | _ <;> simp [liftVal, omap]
  simp only [if_neg h7]
  by_cases h8 : tag = Gen.fieldMetaFromLMDBTxnID
  · simp only [if_pos h8]
    rw [getInt64_eq p _ wt hp3, hp1]
    rcases getInt64S p1 wt with ⟨s, r⟩ | e | _ | _ <;> simp [liftVal, omap]
  simp only [if_neg h8]
  rw [decSkip_eq p _ _ tag wt hp3 hmaxd, hp1]
  rcases decSkipS p1 defaultMaxFieldLen wt with r | e | _ | _ <;> simp [omap]

theorem metaStepS_adv (p : Bytes) (m m' : Meta) (rest : Bytes)
    (h : metaStepS p m = .ok (m', rest)) : Adv p rest := by
  unfold metaStepS at h
  rcases ht : decTagS p with ⟨tag, wt, p1⟩ | e | _ | _
  rotate_left
  · simp [ht] at h
  · simp [ht] at h
  · simp [ht] at h
  obtain ⟨n, hn1, hn2, rfl⟩ := decTagS_adv _ _ _ _ ht
  simp only [ht, bind_ok] at h
  have hb : ∀ (r : Bytes), Adv (p.drop n) r → Adv p r := fun r a => adv_trans_drop n hn2 a
  have bytesCase : ∀ (g : Bytes × Bytes → Meta × Bytes), (∀ x, (g x).2 = x.2) →
      (getBytesS (p.drop n) defaultMaxFieldLen wt >>= fun (x : Bytes × Bytes) => Outcome.ok (g x)) = .ok (m', rest) → Adv p rest := by
    intro g hg2 hh
    rcases hg : getBytesS (p.drop n) defaultMaxFieldLen wt with ⟨s, r⟩ | e | _ | _
    rotate_left
    · simp [hg] at hh
    · simp [hg] at hh
    · simp [hg] at hh
    simp only [hg, bind_ok] at hh
    injection hh with hh
    have h2 := hg2 (s, r)
    rw [hh] at h2
    simp only at h2
    subst h2; exact hb _ (getBytesS_adv _ _ _ _ _ hg).1
  have intCase : ∀ (g : Int × Bytes → Meta × Bytes), (∀ x, (g x).2 = x.2) →
      (getInt64S (p.drop n) wt >>= fun (x : Int × Bytes) => Outcome.ok (g x)) = .ok (m', rest) → Adv p rest := by
    intro g hg2 hh
    rcases hg : getInt64S (p.drop n) wt with ⟨s, r⟩ | e | _ | _
    rotate_left
    · simp [hg] at hh
    · simp [hg] at hh
    · simp [hg] at hh
    simp only [hg, bind_ok] at hh
    injection hh with hh
    have h2 := hg2 (s, r)
    rw [hh] at h2
    simp only at h2
    subst h2; exact hb _ (getInt64S_adv _ _ _ _ hg)
  split at h
  · exact bytesCase _ (fun _ => rfl) h
  split at h
  · exact bytesCase _ (fun _ => rfl) h
  split at h
  · exact bytesCase _ (fun _ => rfl) h
  split at h
  · exact intCase _ (fun _ => rfl) h
  split at h
  · rcases hg : getFixed64S (p.drop n) wt with ⟨s, r⟩ | e | _ | _
    rotate_left
    · simp [hg] at h
    · simp [hg] at h
    · simp [hg] at h
    simp only [hg, bind_ok] at h
    injection h with h; injection h with _ h
    subst h; exact hb _ (getFixed64S_adv _ _ _ _ hg)
  split at h
  · exact bytesCase _ (fun _ => rfl) h
  split at h
  · exact intCase _ (fun _ => rfl) h
  · rcases hg : decSkipS (p.drop n) defaultMaxFieldLen wt with r | e | _ | _
    rotate_left
    · simp [hg] at h
    · simp [hg] at h
    · simp [hg] at h
    simp only [hg, bind_ok] at h
    injection h with h; injection h with _ h
    subst h; exact hb _ (decSkipS_adv _ _ _ _ hg)

theorem metaLoop_eq (p : Bytes) :
    ∀ (fuel k : Nat) (m : Meta), k ≤ p.length →
      metaLoop p fuel (k : Int) m = metaLoopS fuel (p.drop k) m := by
  intro fuel
  induction fuel with
  | zero => intros; rfl
  | succ fuel ih =>
    intro k m hk
    unfold metaLoop metaLoopS
    by_cases hend : p.drop k = []
    · have : p.length ≤ k := (drop_nil_iff p k).mp hend
      rw [if_pos (by omega)]; simp [hend]
    · have : ¬ p.length ≤ k := fun h => hend ((drop_nil_iff p k).mpr h)
      rw [if_neg (by omega), metaStep_eq p k m hk]
      simp only [hend, if_false]
      rcases hs : metaStepS (p.drop k) m with ⟨m', rest⟩ | e | _ | _
      rotate_left
      · simp [liftStep, omap]
      · simp [liftStep, omap]
      · simp [liftStep, omap]
      obtain ⟨hp1, hp2, hp3, hp4⟩ := adv_pos hk (metaStepS_adv _ _ _ _ hs)
      simp only [liftStep, omap]
      rw [ih _ m' hp3, hp1]

theorem metaUnmarshal_eq (data : Bytes) (m : Meta) : metaUnmarshal data m = metaUnmarshalS data m := by
  unfold metaUnmarshal metaUnmarshalS
  have := metaLoop_eq data (data.length + 1) 0 m (Nat.zero_le _)
  simpa using this

theorem snapStep_eq (p : Bytes) (k : Nat) (s : SnapRaw) (h63 : p.length < two63) (hk : k ≤ p.length) :
    snapStep p (k : Int) s = liftStep p.length (snapStepS (p.drop k) s) := by
  have hmaxs := snapshotMax_lt
  unfold snapStep snapStepS liftStep
  rw [decTag_eq p k hk]
  rcases ht : decTagS (p.drop k) with ⟨tag, wt, p1⟩ | e | _ | _
  rotate_left
  · simp [omap]
  · simp [omap]
  · simp [omap]
  obtain ⟨hp1, hp2, hp3, _⟩ := adv_pos hk (decTagS_adv _ _ _ _ ht)
  have hp1len : p1.length ≤ p.length := by
    have := congrArg List.length hp1; simp at this; omega
  simp only [omap, bind_ok]
  by_cases h1 : tag = Gen.fieldSnapshotFormatVersion
  · simp only [if_pos h1]
    rw [getUInt32_eq p _ wt hp3, hp1]
    rcases getUInt32S p1 wt with ⟨v, r⟩ | e | _ | _ <;> simp [liftVal, omap]
  simp only [if_neg h1]
  by_cases h4 : tag = Gen.fieldSnapshotCompatVersion
  · simp only [if_pos h4]
    rw [getUInt32_eq p _ wt hp3, hp1]
    rcases getUInt32S p1 wt with ⟨v, r⟩ | e | _ | _ <;> simp [liftVal, omap]
  simp only [if_neg h4]
  by_cases h2 : tag = Gen.fieldSnapshotMeta
  · simp only [if_pos h2]
    rw [getBytes_eq p _ _ wt hp3 hmaxs, hp1]
    rcases hg : getBytesS p1 snapshotMaxFieldLen wt with ⟨msg, r⟩ | e | _ | _
    rotate_left
    · simp [liftVal, omap]
    · simp [liftVal, omap]
    · simp [liftVal, omap]
    simp only [liftVal, omap, bind_ok]
    rw [metaUnmarshal_eq]
    rcases metaUnmarshalS msg s.info with m | e | _ | _ <;> simp [omap]
  simp only [if_neg h2]
  by_cases h3 : tag = Gen.fieldSnapshotDBI
  · simp only [if_pos h3]
    rw [getBytes_eq p _ _ wt hp3 hmaxs, hp1]
    rcases hg : getBytesS p1 snapshotMaxFieldLen wt with ⟨msg, r⟩ | e | _ | _
    rotate_left
    · simp [liftVal, omap]
    · simp [liftVal, omap]
    · simp [liftVal, omap]
    have hml := (getBytesS_adv _ _ _ _ _ hg).2
    simp only [liftVal, omap, bind_ok]
    rw [indexData_eq msg (by omega)]
    rcases indexDataS msg with m | e | _ | _ <;> simp [omap]
  simp only [if_neg h3]
  rw [decSkip_eq p _ _ tag wt hp3 hmaxs, hp1]
  rcases decSkipS p1 snapshotMaxFieldLen wt with r | e | _ | _ <;> simp [omap]

theorem snapStepS_adv (p : Bytes) (s s' : SnapRaw) (rest : Bytes)
    (h : snapStepS p s = .ok (s', rest)) : Adv p rest := by
  unfold snapStepS at h
  rcases ht : decTagS p with ⟨tag, wt, p1⟩ | e | _ | _
  rotate_left
  · simp [ht] at h
  · simp [ht] at h
  · simp [ht] at h
  obtain ⟨n, hn1, hn2, rfl⟩ := decTagS_adv _ _ _ _ ht
  simp only [ht, bind_ok] at h
  have hb : ∀ (r : Bytes), Adv (p.drop n) r → Adv p r := fun r a => adv_trans_drop n hn2 a
  have u32Case : ∀ (g : Nat × Bytes → SnapRaw × Bytes), (∀ x, (g x).2 = x.2) →
      (getUInt32S (p.drop n) wt >>= fun (x : Nat × Bytes) => Outcome.ok (g x)) = .ok (s', rest) → Adv p rest := by
    intro g hg2 hh
    rcases hg : getUInt32S (p.drop n) wt with ⟨v, r⟩ | e | _ | _
    rotate_left
    · simp [hg] at hh
    · simp [hg] at hh
    · simp [hg] at hh
    simp only [hg, bind_ok] at hh
    injection hh with hh
    have h2 := hg2 (v, r)
    rw [hh] at h2
    simp only at h2
    subst h2; exact hb _ (getUInt32S_adv _ _ _ _ hg)
  split at h
  · exact u32Case _ (fun _ => rfl) h
  split at h
  · exact u32Case _ (fun _ => rfl) h
  split at h
  · rcases hg : getBytesS (p.drop n) snapshotMaxFieldLen wt with ⟨msg, r⟩ | e | _ | _
    rotate_left
    · simp [hg] at h
    · simp [hg] at h
    · simp [hg] at h
    simp only [hg, bind_ok] at h
    rcases hm : metaUnmarshalS msg s.info with m | e | _ | _
    rotate_left
    · simp [hm] at h
    · simp [hm] at h
    · simp [hm] at h
    simp only [hm, bind_ok] at h
    injection h with h; injection h with _ h
    subst h; exact hb _ (getBytesS_adv _ _ _ _ _ hg).1
  split at h
  · rcases hg : getBytesS (p.drop n) snapshotMaxFieldLen wt with ⟨msg, r⟩ | e | _ | _
    rotate_left
    · simp [hg] at h
    · simp [hg] at h
    · simp [hg] at h
    simp only [hg, bind_ok] at h
    rcases hm : indexDataS msg with m | e | _ | _
    rotate_left
    · simp [hm] at h
    · simp [hm] at h
    · simp [hm] at h
    simp only [hm, bind_ok] at h
    injection h with h; injection h with _ h
    subst h; exact hb _ (getBytesS_adv _ _ _ _ _ hg).1
  · rcases hg : decSkipS (p.drop n) snapshotMaxFieldLen wt with r | e | _ | _
    rotate_left
    · simp [hg] at h
    · simp [hg] at h
    · simp [hg] at h
    simp only [hg, bind_ok] at h
    injection h with h; injection h with _ h
    subst h; exact hb _ (decSkipS_adv _ _ _ _ hg)

theorem snapLoop_eq (p : Bytes) (h63 : p.length < two63) :
    ∀ (fuel k : Nat) (s : SnapRaw), k ≤ p.length →
      snapLoop p fuel (k : Int) s = snapLoopS fuel (p.drop k) s := by
  intro fuel
  induction fuel with
  | zero => intros; rfl
  | succ fuel ih =>
    intro k s hk
    unfold snapLoop snapLoopS
    by_cases hend : p.drop k = []
    · have : p.length ≤ k := (drop_nil_iff p k).mp hend
      rw [if_pos (by omega)]; simp [hend]
    · have : ¬ p.length ≤ k := fun h => hend ((drop_nil_iff p k).mpr h)
      rw [if_neg (by omega), snapStep_eq p k s h63 hk]
      simp only [hend, if_false]
      rcases hs : snapStepS (p.drop k) s with ⟨s', rest⟩ | e | _ | _
      rotate_left
      · simp [liftStep, omap]
      · simp [liftStep, omap]
      · simp [liftStep, omap]
      obtain ⟨hp1, hp2, hp3, hp4⟩ := adv_pos hk (snapStepS_adv _ _ _ _ hs)
      simp only [liftStep, omap]
      rw [ih _ s' hp3, hp1]

theorem snapshotUnmarshal_eq (data : Bytes) (h63 : data.length < two63) :
    snapshotUnmarshal data = snapshotUnmarshalS data := by
  unfold snapshotUnmarshal snapshotUnmarshalS
  have := snapLoop_eq data h63 (data.length + 1) 0 snapZero (Nat.zero_le _)
  simpa using this

end Ls.CodecS
