import LsLemmas.RecvProgress
/-
  Receiver model: the driver's big step `quiesceOrd` is a run of fault-free small steps, so every
  state the driver shows is reachable in the small-step model. Core Lean only.
-/
namespace Ls.Recv
variable {ι : Type} [DecidableEq ι]

theorem dlStepOf_fair {s : St ι} {d : ι} {x : Step ι} (h : dlStepOf s d = some x) : x.fair = true := by
  unfold dlStepOf at h
  split at h
  · cases h
  · split at h
    · split at h
      · cases h; rfl
      · cases h
    · cases h; rfl
    · split at h
      · cases h; rfl
      · cases h
    · cases h
      simp only [Step.fair]
      split <;> rfl
    · split at h
      · cases h; rfl
      · cases h
    · cases h; rfl
    · cases h

theorem firstStep_spec {s : St ι} {order : List ι} {x : Step ι} {s' : St ι} (h : firstStep s order = some (x, s')) :
    x.fair = true ∧ step s x = some s' := by
  induction order with
  | nil => simp [firstStep] at h
  | cons d r ih =>
    simp only [firstStep] at h
    split at h
    · rename_i y hy
      split at h
      · rename_i s1 hs1
        cases h
        exact ⟨dlStepOf_fair hy, hs1⟩
      · exact ih h
    · exact ih h

theorem quiesceLoop_run (order : List ι) (fuel : Nat) (s : St ι) :
    (∀ x ∈ (quiesceLoop order fuel s).1, x.fair = true) ∧
    run s (quiesceLoop order fuel s).1 = some (quiesceLoop order fuel s).2 := by
  induction fuel generalizing s with
  | zero => exact ⟨by simp [quiesceLoop], rfl⟩
  | succ n ih =>
    simp only [quiesceLoop]
    split
    · rename_i x s' hfs
      obtain ⟨hf, hs⟩ := firstStep_spec hfs
      obtain ⟨h1, h2⟩ := ih s'
      refine ⟨?_, ?_⟩
      · intro y hy
        rcases List.mem_cons.mp hy with e | hm
        · subst e; exact hf
        · exact h1 y hm
      · simp only [run, hs]; exact h2
    · exact ⟨by simp, rfl⟩

theorem retryAll_run (order : List ι) (s : St ι) :
    (∀ x ∈ (retryAll order s).1, x.fair = true) ∧ run s (retryAll order s).1 = some (retryAll order s).2 := by
  induction order generalizing s with
  | nil => exact ⟨by simp [retryAll], rfl⟩
  | cons d r ih =>
    simp only [retryAll]
    split
    · rename_i s' hs
      obtain ⟨h1, h2⟩ := ih s'
      refine ⟨?_, ?_⟩
      · intro y hy
        rcases List.mem_cons.mp hy with e | hm
        · subst e; rfl
        · exact h1 y hm
      · simp only [run, hs]; exact h2
    · exact ih s

/-- `quiesceOrd` is a run of fault-free downloader steps -/
theorem quiesceOrd_run (order : List ι) (s : St ι) :
    (∀ x ∈ (quiesceOrd order s).1, x.fair = true) ∧
    run s (quiesceOrd order s).1 = some (quiesceOrd order s).2 := by
  unfold quiesceOrd
  simp only
  obtain ⟨a1, a2⟩ := retryAll_run order s
  obtain ⟨b1, b2⟩ := quiesceLoop_run order (16 * order.length + 16) (retryAll order s).2
  refine ⟨?_, ?_⟩
  · intro x hx
    rcases List.mem_append.mp hx with h | h
    · exact a1 x h
    · exact b1 x h
  · rw [run_append, a2]; exact b2

end Ls.Recv
