import LsModel.DriverA
import LsModel.PropsA
import LsModel.DriverStrat
import LsModel.DriverDup
/- lsdriver: one operation per input line, exactly one canonical output line per operation. -/
open Ls.Drv

def handlers : List (String → List String → Option String) := [opHeader, opMerge, opC02, opStrat, opDup]

def step (line : String) : String :=
  match (line.trimAscii.toString.split (· == ' ')).toList.map (·.toString) |>.filter (· ≠ "") with
  | [] => "bad-op"
  | op :: args =>
    match handlers.findSome? (fun h => h op args) with
    | some out => out
    | none => "bad-op"

partial def loop (h : IO.FS.Stream) (out : IO.FS.Stream) : IO Unit := do
  let line ← h.getLine
  if line.isEmpty then return ()
  out.putStrLn (step line)
  loop h out

def main : IO Unit := do
  let out ← IO.getStdout
  loop (← IO.getStdin) out
  out.flush
