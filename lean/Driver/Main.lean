import LsModel.DriverA
import LsModel.PropsA
import LsModel.DriverStrat
import LsModel.DriverDup
import LsModel.DriverTxn
import LsModel.DriverCleaner
import LsModel.DriverCfg
import LsModel.DriverName
import LsModel.DriverSweep
import LsModel.DriverLoop
import LsModel.DriverWire
import LsModel.DriverConc
import LsModel.DriverRecv
/- lsdriver: one operation per input line, exactly one canonical output line per operation. -/
open Ls.Drv

/-- stateless operations -/
def handlers : List (String → List String → Option String) := [opHeader, opMerge, opC02, opStrat, opDup, opCfg, opName, opWire, opConc]

/-- operations that read or update the driver state -/
def statefulHandlers : List (String → List String → DrvState → Option (DrvState × String)) := [opTxn, opSweep, opLoop, opCleaner, opRecv]

def step (st : DrvState) (line : String) : DrvState × String :=
  match (line.trimAscii.toString.split (· == ' ')).toList.map (·.toString) |>.filter (· ≠ "") with
  | [] => (st, "bad-op")
  | op :: args =>
    match statefulHandlers.findSome? (fun h => h op args st) with
    | some r => r
    | none =>
      match handlers.findSome? (fun h => h op args) with
      | some out => (st, out)
      | none => (st, "bad-op")

partial def loop (h : IO.FS.Stream) (out : IO.FS.Stream) (st : DrvState) : IO Unit := do
  let line ← h.getLine
  if line.isEmpty then return ()
  let (st', o) := step st line
  out.putStrLn o
  loop h out st'

def main : IO Unit := do
  let out ← IO.getStdout
  loop (← IO.getStdin) out {}
  out.flush
