import LsLemmas.PbValid
/-
  C07 — Snapshot encoding is lossless and wire-compatible with the published schema.

  Model: LsModel/Wire.lean, Codec.lean (the hand-written codec as it is in /repo, with D2 and D3
  fixed), LsModel/PbSpec.lean (declarative proto3 semantics of snapshot/gogosnapshot/snapshot.proto).
  Property theorems only; lemmas live in LsLemmas (CodecRefine: offset-level model = functions of
  the remaining input; PbCompat: decoder loops = fold over PbSpec records; CodecEnc: encoder bytes;
  PbValid: value of the encoder's bytes).
-/
namespace Ls.C07
open Ls Ls.Wire Ls.Codec Ls.CodecS

/-- Well-formed snapshot (decidable): values within their Go types (uint32 versions and entry
    flags, uint64 timestamps and DBI flags, int64 transaction ids), transaction ids non-negative
    (as LMDB's are), DBI names 1..511 bytes (LMDB's limit), transforms ≤ 64 bytes, keys non-empty;
    values, flags, timestamps, strings otherwise arbitrary.  Three size limits that the decoder
    imposes are part of it: Meta strings ≤ math.MaxInt32 bytes (csproto's default field limit),
    an encoded DBI ≤ snapshot.MaxFieldLength = 100 GB, the whole message < 2^63 bytes. -/
abbrev SnapWF := Ls.CodecS.SnapWF

instance (s : Snapshot') : Decidable (SnapWF s) := by
  unfold SnapWF Ls.CodecS.SnapWF MetaWF DBIWF; infer_instance

/-- `s` describes LMDB content: no empty key -/
abbrev LmdbContent := Ls.CodecS.LmdbContent

/-- What a conforming writer emits and csproto's `Decoder` (used for the Snapshot and Meta levels)
    insists on: at Snapshot and Meta level field numbers < 2^26 (csproto compares the whole tag
    value, not the field number, with MaxTagValue = 2^29-1 — recorded as finding D15), field lengths
    within snapshot.MaxFieldLength (100 GB) resp. math.MaxInt32 in Meta, and the two uint32 version
    fields written with a value < 2^32 (csproto rejects a longer varint where protobuf truncates).
    No condition at DBI and KV level. -/
abbrev Conforming := Ls.CodecS.Conforming

/-- the Go constants the codec uses are the field numbers of the published .proto file -/
theorem C07_schema_field_numbers :
    Gen.fieldKVKey = 1 ∧ Gen.fieldKVValue = 2 ∧ Gen.fieldKVTimestampNano = 3 ∧ Gen.fieldKVFlags = 4 ∧
    Gen.fieldDBIName = 1 ∧ Gen.fieldDBIEntries = 2 ∧ Gen.fieldDBIFlags = 3 ∧ Gen.fieldDBITransform = 4 ∧
    Gen.fieldSnapshotFormatVersion = 1 ∧ Gen.fieldSnapshotMeta = 2 ∧ Gen.fieldSnapshotDBI = 3 ∧
    Gen.fieldSnapshotCompatVersion = 4 ∧
    Gen.fieldMetaGenerationID = 1 ∧ Gen.fieldMetaInstanceID = 2 ∧ Gen.fieldMetaHostname = 3 ∧
    Gen.fieldMetaLMDBTxnID = 4 ∧ Gen.fieldMetaTimestampNano = 5 ∧ Gen.fieldMetaDatabaseName = 7 ∧
    Gen.fieldMetaFromLMDBTxnID = 8 ∧ Gen.tagSize0To15 = 1 := by decide

/-- `csproto.SizeOfVarint` (used by `Append` to compute sizes in advance) is the number of bytes
    `EncodeVarint` writes, for every uint64 -/
theorem C07_sizeOfVarint_exact (v : Nat) (hv : v < two64) : sizeOfVarint v = (encodeVarint v).length :=
  sizeOfVarint_eq v hv

/-- The fixed 1000-byte buffer of `doFlushFields` suffices for every name of at most 511 bytes and
    transform of at most 64 bytes (any flags): no index out of range, nothing truncated. -/
theorem C07_field_buffer_suffices (h : DBIHdr) (hn : h.name.length ≤ 511) (ht : h.transform.length ≤ 64) :
    flushFields h = .ok (hdrBytes h) :=
  flushFields_eq h hn ht

/-- `DBI.Append` writes exactly the entry it sized in advance — for every key, value (incl. empty),
    flags and timestamp: no index out of range, no unwritten tail, nothing for an all-empty entry. -/
theorem C07_append_size_exact (data : Bytes) (kv : KV) (hr : KVRange kv) (hsz : (kvBytes kv).length < two64) :
    dbiAppend data kv = .ok (data ++ entryBytes kv) :=
  dbiAppend_eq data kv hr hsz

/-- `Meta.Marshal`'s estimated buffer is always large enough -/
theorem C07_meta_buffer_suffices (m : Meta) : (metaMarshal m).length ≤ metaBufSize m :=
  metaMarshal_fits m

/-- The encoder is total on well-formed snapshots and writes exactly the concatenation of its
    fields (`snapBytes`). -/
theorem C07_encode_total (s : Snapshot') (hw : SnapWF s) : encode s = .ok (snapBytes s) :=
  encode_eq s (fun d hd => dbiRange_of_wf d (hw.2.2.2.1 d hd))

/-- The bytes written are a valid message of the published schema and its value is the snapshot
    that was encoded. -/
theorem C07_valid_pb (s : Snapshot') (hw : SnapWF s) :
    ∃ b, encode s = .ok b ∧ PbSpec.parse b = some s :=
  ⟨snapBytes s, C07_encode_total s hw, parse_snapBytes s hw⟩

/-- Compatibility, KV level — no side condition: every byte string that is a KV message of the
    schema with a non-empty key (fields in any order, repeated, unknown fields of wire types
    0, 1, 2, 5 with any field number) is decoded by `KV.Unmarshal` to the message's value. -/
theorem C07_compat_kv (b : Bytes) (kv : KV) (h : PbSpec.parseKV b = some kv) (hk : kv.key ≠ [])
    (h63 : b.length < two63) : kvUnmarshal b = .ok kv := by
  rw [kvUnmarshal_eq b h63]
  exact kvUnmarshalS_parseKV b kv h (parseKV_nonempty b kv h hk)

/-- Compatibility, DBI level — no side condition: `NewDBIFromData` finds the message's name,
    flags and transform, and iterating `Next` until io.EOF delivers exactly its entries, for every
    DBI message of the schema whose entries have non-empty keys (any field order, repetitions,
    unknown fields at DBI and KV level). -/
theorem C07_compat_dbi (b : Bytes) (d : DBI') (h : PbSpec.parseDBI b = some d)
    (hk : ∀ e ∈ d.entries, e.key ≠ []) (h63 : b.length < two63) :
    indexData b = .ok { name := d.name, flags := d.flags, transform := d.transform } ∧
    dbiEntries b = .ok d.entries := by
  rw [indexData_eq b h63, dbiEntries_eq b h63]
  exact ⟨indexDataS_parseDBI b d h, dbiEntriesS_parseDBI b d h hk⟩

/-- Compatibility: every byte string that is a message of the published schema (any field order,
    repeated scalars — last one wins —, a `meta` split over several occurrences, unknown fields of
    wire types 0, 1, 2, 5 at all four nesting levels) and describes LMDB content decodes, through
    `Snapshot.Unmarshal` and the complete lazy iteration of every DBI, to exactly the value the
    protobuf semantics assigns — under `Conforming` (csproto's limits at the two outer levels). -/
theorem C07_compat (b : Bytes) (s : Snapshot') (h : PbSpec.parse b = some s) (hl : LmdbContent s)
    (hc : Conforming b) (h63 : b.length < two63) : decodeAll b = .ok s := by
  rw [decodeAll_eq b h63]
  exact decodeAllS_parse b s h hl hc

/-- `Conforming` cannot be dropped (finding D15): a valid message whose only field is an unknown
    varint field number 2^26 has the value "empty snapshot", but is rejected. -/
theorem C07_compat_tag_limit_witness :
    PbSpec.parse [0x80, 0x80, 0x80, 0x80, 0x02, 0x00] = some PbSpec.snapZero' ∧
    decodeAll [0x80, 0x80, 0x80, 0x80, 0x02, 0x00] = .err .badTag := ⟨by decide, by rfl⟩

/-- …nor its uint32 clause: formatVersion written as the varint 2^32 has the protobuf value 0 and
    is rejected with ErrValueOverflow (no conforming encoder writes it). -/
theorem C07_compat_uint32_witness :
    PbSpec.parse [0x08, 0x80, 0x80, 0x80, 0x80, 0x10] = some PbSpec.snapZero' ∧
    decodeAll [0x08, 0x80, 0x80, 0x80, 0x80, 0x10] = .err .overflow := ⟨by decide, by rfl⟩

/-- Round trip: for every well-formed snapshot — any number of DBIs, any names/flags/transforms
    within the limits, keys and values of any bytes and length (values may be empty), any
    timestamps and flags, any metadata — encoding succeeds and decoding the bytes (Unmarshal plus
    full iteration of all entries) returns the identical snapshot. -/
theorem C07_roundtrip (s : Snapshot') (hw : SnapWF s) :
    ∃ b, encode s = .ok b ∧ decodeAll b = .ok s :=
  ⟨snapBytes s, C07_encode_total s hw,
    C07_compat (snapBytes s) s (parse_snapBytes s hw) (lmdbContent_of_wf s hw) (conforming_snapBytes s hw) hw.2.2.2.2⟩

/-- non-vacuity: a snapshot with two DBIs, an entry without value, flags, a transform -/
def example1 : Snapshot' :=
  { formatVersion := 3, compatVersion := 1,
    info := { generationID := [0x47], instanceID := [0x69], hostname := [], lmdbTxnID := 42,
              timestampNano := 1700000000000000000, databaseName := [0x6d], fromLmdbTxnID := 0 },
    dbis := [ { name := [0x64], flags := 8, transform := [],
                entries := [ { key := [0x6b], val := [], ts := 5, flags := 1 },
                             { key := [0x6b, 0x32], val := [0x76], ts := 0, flags := 0 } ] },
              { name := [0x65], flags := 0, transform := [0x74], entries := [] } ] }

example : SnapWF example1 := by
  refine ⟨by decide, by decide, ⟨by decide, by decide, by decide, by decide, by decide, by decide, by decide, by decide, by decide⟩, ?_, by decide⟩
  intro d hd
  simp [example1] at hd
  rcases hd with rfl | rfl <;> refine ⟨by decide, by decide, by decide, by decide, by decide, ?_⟩ <;> intro kv hkv <;> simp at hkv
  rcases hkv with rfl | rfl <;> refine ⟨by simp, by decide, by decide⟩

/-- non-vacuity of `C07_compat`: a message with shuffled fields and unknown fields at three levels -/
example : (PbSpec.parse
    [0x1a, 0x11, 0x28, 0x07, 0x12, 0x08, 0x4d, 1, 2, 3, 4, 0x0a, 0x01, 0x6b, 0x0a, 0x03, 0x61, 0x62, 0x63,
     0x7a, 0x01, 0xff, 0x08, 0x03]).map (fun s => (s.formatVersion, s.dbis.map (fun d => (d.name, d.entries.map (·.key)))))
    = some (3, [([0x61, 0x62, 0x63], [[0x6b]])]) := by decide

end Ls.C07
