import LsLemmas.LoopWitness
/-
  C12 (sync-loop half of `C12_receive_only`) — an instance in receive-only mode never stores
  anything. For EVERY schedule. (The cleaner half is `C12_receive_only` in `LsProps/C12.lean`.)
-/
namespace Ls.C12
open Ls Ls.Txn Ls.SyncLoop Ls.Loop

/-- **Receive-only, one segment**: no segment of a receive-only instance touches the bucket. -/
theorem C12_receive_only_step (c : LoopCfg) (hro : c.txn.receiveOnly = true) (b : Bucket) (s : St)
    (i : In) : (go c b s i).2 = b := by
  rcases go_bucket c b s i with ⟨⟨_, h, _⟩, _⟩ | ⟨_, hb⟩
  · rw [hro] at h; cases h
  · exact hb

/-- **Receive-only, every schedule**: after any schedule the bucket is the initial bucket plus
    what the other instances stored, in order — the instance's loop appended nothing (in
    particular no blob of its own name), however often `SendOnce` ran. -/
theorem C12_receive_only_loop (c : LoopCfg) (hro : c.txn.receiveOnly = true) (env : Env) (b : Bucket)
    (evs : List Ev) : (run c env b evs).bucket = b ++ othersOf evs :=
  receiveOnly_run c hro (G.init env b) evs

end Ls.C12
