import LsLemmas.LoopWitness
/-
  C16 (sync-loop part) — run-once: the loop ends by itself exactly at the tail of an iteration
  with an empty waiting set, and an instance leaves the waiting set only by a merge of one of its
  snapshots or by its snapshots having disappeared. For EVERY schedule. (The receiver part of C16
  is a `Receiver` property.)
-/
namespace Ls.C16
open Ls Ls.Txn Ls.SyncLoop Ls.Loop

/-- **Only-once exit, "only if".** A segment takes the loop to `exited ok` only from the tail of
    an iteration (`EndsIteration`: the `beforeInfo` segment when nothing is sent; the `sendStored`
    segment of a loop send; the `sendAfterTxn` segment of a receive-only loop send), in only-once
    mode, with the waiting set empty (before and after the segment). -/
theorem C16_run_once_only_if (c : LoopCfg) (b : Bucket) (s : St) (i : In)
    (hne : s.pc ≠ .exited .ok) (he : (go c b s i).1.pc = .exited .ok) :
    c.onlyOnce = true ∧ (go c b s i).1.waiting = [] ∧ s.waiting = [] ∧ EndsIteration c s :=
  exit_ok_only c b s i hne he

/-- **Only-once exit, "if".** At the tail of every iteration (`afterSend`) the loop ends iff it
    is in only-once mode and the waiting set is empty; otherwise it sleeps. -/
theorem C16_run_once_if (c : LoopCfg) (s : St) :
    (afterSend c s).pc = if c.onlyOnce = true ∧ s.waiting = [] then .exited .ok else .sleep :=
  afterSend_pc c s

/-- … in terms of segments: the `beforeInfo` segment of an iteration without upload (nothing
    new in the LMDB, and no snapshot overdue: `storage_force_snapshot_interval`), in only-once
    mode with an empty waiting set, ends the loop. -/
theorem C16_run_once_exits (c : LoopCfg) (b : Bucket) (s : St) (i : In)
    (hpc : s.pc = .beforeInfo) (hno : s.env.lastTxn ≤ s.lastSynced) (hnf : s.forceArmed = false)
    (ho : c.onlyOnce = true) (hw : s.waiting = []) : (go c b s i).1.pc = .exited .ok := by
  rw [(go_pc c b s i).1, goRaw_beforeInfo_unarmed hpc hnf, if_neg (by omega)]
  simp only
  rw [afterSend_pc, if_pos ⟨ho, hw⟩]

/-- … and the `sendStored` segment of a loop send likewise. -/
theorem C16_run_once_exits_after_store (c : LoopCfg) (b : Bucket) (s : St) (i : In) (t : Nat)
    (hpc : s.pc = .sendStored .loop t) (ho : c.onlyOnce = true) (hw : s.waiting = []) :
    (go c b s i).1.pc = .exited .ok := by
  rw [(go_pc c b s i).1, goRaw_sendStored hpc]
  simp only
  rw [(sendReturned_facts c _ .loop t).2.2.2.2.2]
  simp only
  rw [if_pos ⟨ho, hw⟩]

/-- **How an instance leaves the waiting set**: by a segment in which `poll` found one of its
    snapshots and began to load it, or in which `afterLoads` ran while the receiver no longer saw
    it. The set never grows after start-up. -/
theorem C16_waiting_leaves (c : LoopCfg) (b : Bucket) (s : St) (i : In) (x : InstId)
    (hboot : s.pc ≠ .boot) :
    (x ∈ s.waiting → x ∉ (go c b s i).1.waiting →
      pollTarget b s i = some x ∨ (runsAfterLoads s i = true ∧ x ∉ s.seen)) ∧
    (x ∈ (go c b s i).1.waiting → x ∈ s.waiting) :=
  ⟨waiting_leave c b s i x hboot, waiting_shrinks c b s i x hboot⟩

/-- **Run-once, over whole schedules.** If after a schedule the loop has ended by itself, then it
    was in only-once mode, nothing is waited for, and every instance that was in the waiting set
    right after start-up (the instances in the initial listing, own included) has since had a
    load of one of its snapshots begun (`merged`) or was dropped because the receiver no longer
    saw it (`gone`) — not earlier. -/
theorem C16_run_once (c : LoopCfg) (env : Env) (b : Bucket) (evs : List Ev)
    (he : (run c env b evs).st.pc = .exited .ok) :
    c.onlyOnce = true ∧ (run c env b evs).st.waiting = [] ∧
    ∀ x ∈ (run c env b evs).gh.startSet,
      x ∈ (run c env b evs).gh.merged ∨ x ∈ (run c env b evs).gh.gone := by
  obtain ⟨h1, h2⟩ := exit_ok_run c env b evs he
  refine ⟨h1, h2, fun x hx => ?_⟩
  rcases (inv0_run c env b evs).left x hx with h | h
  · rw [h2] at h; cases h
  · exact h

/-- the waiting set right after start-up is the set of instances in the listing the start-up
    segment saw -/
theorem C16_start_set (c : LoopCfg) (b : Bucket) (s : St) (i : In) (hpc : s.pc = .boot) :
    (go c b s i).1.waiting = instancesOf b := by
  rw [(go_pc c b s i).2.1]
  obtain ⟨_, hb⟩ := goRaw_boot (c := c) (b := b) (i := i) hpc
  generalize (goRaw c b s i).1 = s' at hb ⊢
  cases hb with
  | captureFailed e s0 e1 e2 e3 => exact e3
  | noSend s0 e1 e2 e3 e4 e5 e6 e7 => exact e2
  | send s0 e1 e2 e3 e4 e5 e6 e7 =>
    have hout := beginSend_out c s0 .initial i.now
    generalize beginSend c s0 .initial i.now = s'' at hout ⊢
    have : instancesOf b = [] := by rw [e7]; rfl
    cases hout <;> (simp only; rw [e2, this])

open Ls.Loop.Witness in
/-- the hypotheses are satisfiable: an only-once instance merges the one snapshot in the bucket,
    finds nothing to upload and ends by itself — after the merge (3 segments: still running),
    not earlier -/
example :
    (run { cfgS with onlyOnce := true } env0 bkt (schedOk.take 3)).st.pc = .beforeInfo ∧
    (run { cfgS with onlyOnce := true } env0 bkt (schedOk.take 1)).gh.startSet = ["b"] ∧
    (run { cfgS with onlyOnce := true } env0 bkt (schedOk.take 4)).st.pc = .exited .ok ∧
    (run { cfgS with onlyOnce := true } env0 bkt (schedOk.take 4)).gh.merged = ["b"] := by
  refine ⟨by decide +kernel, by decide +kernel, by decide +kernel, by decide +kernel⟩

end Ls.C16
