import LsLemmas.TxnMirrorIdem
/-
  C10 — Syncing reaches quiescence: no echo uploads, no write amplification.
  Transaction-level part: a `LoadOnce` of a snapshot that contains nothing newer, with no local
  change, does not even commit an LMDB transaction (native mode; shadow mode without the dupsort
  hack); with the dupsort hack the content is rewritten identically; loading the same snapshot
  twice changes nothing the second time.
  Model: LsModel/Txn.lean (`loadDbi`, `loadOnce`, `commit`: LMDB records a transaction — `lastTxn`
  advances — only if something was written). Property theorems only; helper lemmas are in
  LsLemmas/TxnMirror{Load,Noop,Idem}.lean. (The sync-loop part of C10 lives elsewhere.)

  "Nothing newer" (`MsgNotNewer`, for every message of the snapshot whose DBI is not private):
  the message passes the gates of `loadDbi` (`ValidateTransform`, format/compat version), no DBI
  has to be created for it, the target DBI (the DBI itself in native mode, its shadow otherwise)
  is sorted in its key order, and every entry has a non-empty key and is `EntryNotNewer`: its key
  is stored with a parsable header and `Merge.keep` holds (the stored version is not beaten: for
  well-formed entries exactly "does not win last-writer-wins", `keep_not_beats` /
  `not_keep_beats`), or the key is absent and the entry is a deletion marker older than the
  cut-off, which is refused (`Merge.stale`). `Merge.keep` reads neither the transaction id nor the
  padding option, so the statements cover both settings of `header_extra_padding_block`.
-/
namespace Ls.C10
open Ls Ls.Lmdb Ls.Strategy Ls.Merge Ls.Txn

/-- **No-op transaction, native mode.** If the snapshot contains nothing newer than the local data
    (`MsgNotNewer` for every message; the transaction id a write transaction would get is
    `e.lastTxn + 1`), then `LoadOnce` returns the environment EXACTLY as it was — same bytes in
    every DBI, `lastTxn` unchanged: no LMDB transaction is recorded — and reports `e.lastTxn` as the
    transaction id; and with no local change either (`lastSynced ≥ e.lastTxn`) `localChanged` is
    false. For every cut-off, format version, and with and without the padding option. -/
theorem C10_noop_txn (c : Txn.Cfg) (e : Env) (snap : Snap) (lastSynced now cutoff : Nat)
    (hn : c.native = true) (hdist : DistinctNames e.dbis)
    (hsnap : ∀ m ∈ snap.dbs, MsgNotNewer c snap (e.lastTxn + 1) cutoff e.dbis m)
    (hloc : e.lastTxn ≤ lastSynced) :
    loadOnce c e snap lastSynced now cutoff =
      .ok { env := e, txnID := e.lastTxn, localChanged := false } := by
  rw [loadOnce_native_noop c e snap lastSynced now cutoff hn hdist hsnap]
  have : ¬ lastSynced < e.lastTxn := by omega
  simp [this]

/-- **No-op transaction, shadow mode without duplicate-keys DBIs.** Additionally assume the mirror
    invariant of C11 (`C11_step`) for every application DBI: it is not a duplicate-keys DBI and it
    is exactly the projection of its shadow (`MirrorOK`: both sorted in the application DBI's key
    order, shadow keys valid, shadow values parsable). Then the capture does not run (no local
    change), the merge writes nothing, the projection writes nothing, and `LoadOnce` returns the
    environment exactly as it was, `lastTxn` unchanged. -/
theorem C10_noop_txn_shadow (c : Txn.Cfg) (e : Env) (snap : Snap) (lastSynced now cutoff : Nat)
    (hn : c.native = false) (hdist : DistinctNames e.dbis)
    (hsnap : ∀ m ∈ snap.dbs, MsgNotNewer c snap (e.lastTxn + 1) cutoff e.dbis m)
    (hloc : e.lastTxn ≤ lastSynced)
    (hmirror : ∀ d ∈ e.dbis, isPrivate d.name = false → isDupSort d.flags = false ∧ MirrorOK e.dbis d) :
    loadOnce c e snap lastSynced now cutoff =
      .ok { env := e, txnID := e.lastTxn, localChanged := false } := by
  have hall : AllMirrorOK c e.dbis := fun d hd hp => Or.inl (hmirror d hd hp)
  have hnd : anyDupApp e.dbis = false := by
    unfold anyDupApp
    rw [List.any_eq_false]
    intro d hd
    cases hp : isPrivate d.name with
    | true => simp
    | false => simp [(hmirror d hd hp).1]
  rw [loadOnce_shadow_noop c e snap lastSynced now cutoff hn hdist (by omega) hsnap hall, hnd]
  simp

/-- **With the dupsort hack the same content is rewritten.** Shadow mode, nothing newer, no local
    change, every application DBI satisfies its mirror invariant (ordinary: `MirrorOK`;
    duplicate-keys with the hack enabled: `DupMirrorOK`, the invariant `C20_cycle` establishes), and
    at least one application DBI is a duplicate-keys DBI: the DBIs are left with exactly the same
    content, but the transaction IS recorded (EmptyPut drops and refills the DBI):
    `lastTxn = e.lastTxn + 1`, and that id is returned. -/
theorem C10_dupsort_rewrites_same_content (c : Txn.Cfg) (e : Env) (snap : Snap)
    (lastSynced now cutoff : Nat)
    (hn : c.native = false) (hdist : DistinctNames e.dbis)
    (hsnap : ∀ m ∈ snap.dbs, MsgNotNewer c snap (e.lastTxn + 1) cutoff e.dbis m)
    (hloc : e.lastTxn ≤ lastSynced) (hall : AllMirrorOK c e.dbis)
    (hdup : ∃ d ∈ e.dbis, isPrivate d.name = false ∧ isDupSort d.flags = true) :
    loadOnce c e snap lastSynced now cutoff =
      .ok { env := { dbis := e.dbis, lastTxn := e.lastTxn + 1 }, txnID := e.lastTxn + 1,
            localChanged := false } := by
  have hd : anyDupApp e.dbis = true := by
    unfold anyDupApp
    rw [List.any_eq_true]
    obtain ⟨d, hd, hp, hds⟩ := hdup
    exact ⟨d, hd, by simp [hp, hds]⟩
  rw [loadOnce_shadow_noop c e snap lastSynced now cutoff hn hdist (by omega) hsnap hall, hd]
  simp

/-- **Loading the same snapshot twice.** Native mode, cut-off 0: after a successful `LoadOnce` of a
    snapshot (entries well-formed — a deleted entry carries no value — with 64-bit timestamps;
    the DBIs the snapshot names sorted in their key order; distinct DBI names), loading the same
    snapshot again, with `lastSynced` = the id the first load returned, changes nothing: the
    environment is returned exactly as the first load left it, no transaction is recorded,
    `localChanged = false` (so the loop does not upload). The id the first load returned is the
    LMDB transaction id after it. Uses: a merge never moves a key backwards and leaves the merged
    entry not newer than what is stored (C02), and the equality skip of `setNewVal` (C19). -/
theorem C10_merge_idempotent_txn (c : Txn.Cfg) (e : Env) (snap : Snap) (lastSynced now now' : Nat)
    (r1 : LoadRes)
    (hn : c.native = true) (hdist : DistinctNames e.dbis) (hts : TargetsSorted snap.dbs e.dbis)
    (hent : EntriesWF snap.dbs) (htx : e.lastTxn + 1 < two64)
    (h : loadOnce c e snap lastSynced now 0 = .ok r1) :
    r1.txnID = r1.env.lastTxn ∧
    loadOnce c r1.env snap r1.txnID now' 0 =
      .ok { env := r1.env, txnID := r1.env.lastTxn, localChanged := false } :=
  loadOnce_twice_native hn hdist hts hent htx h

/-- … and the state after the first load satisfies the hypothesis of `C10_noop_txn`: every message
    is `MsgNotNewer` (this is how the corollary is obtained). -/
theorem C10_after_load_nothing_newer (c : Txn.Cfg) (e : Env) (snap : Snap) (lastSynced now : Nat)
    (r1 : LoadRes)
    (hn : c.native = true) (hdist : DistinctNames e.dbis) (hts : TargetsSorted snap.dbs e.dbis)
    (hent : EntriesWF snap.dbs) (htx : e.lastTxn + 1 < two64)
    (h : loadOnce c e snap lastSynced now 0 = .ok r1) :
    DistinctNames r1.env.dbis ∧
    ∀ m ∈ snap.dbs, isPrivate m.name = false → ∀ en ∈ m.entries,
      en.key ≠ [] ∧ StoredGE r1.env.dbis m.name en.key (norm (loadCfg c snap (e.lastTxn + 1) 0) en) := by
  obtain ⟨w1, hf, henv, _, _⟩ := loadOnce_native_ok hn h
  obtain ⟨hd1, _, _, _, hge⟩ :=
    loadFold_native_mono hn htx hent snap.dbs (fun _ hm => hm) hf hdist hts
  have hdbis : r1.env.dbis = w1.dbis := by rw [henv]; rfl
  rw [hdbis]
  exact ⟨hd1, fun m hm hp => (hge m hm hp).2.2.2⟩

/-! ## the hypotheses are satisfiable -/

/-- a native-mode DBI "a": key 01 live (timestamp 50), key 02 deleted (timestamp 60) -/
def exEnv : Env :=
  { dbis := [{ name := [0x61], flags := 0,
               kvs := [([1], liveBytes 50 3 [0x11]), ([2], markerBytes 60 4)] }],
    lastTxn := 7 }

/-- a snapshot with an older version of key 01, the same marker for key 02, and — for cut-off 100 —
    a stale marker for the absent key 03 -/
def exSnap : Snap :=
  { fv := 3, cv := 1,
    dbs := [{ name := [0x61], flags := 0, transform := [],
              entries := [{ key := [1], val := [0x10], ts := 40, flags := 0 },
                          { key := [2], val := [], ts := 60, flags := 1 },
                          { key := [3], val := [], ts := 30, flags := 1 }] }] }

def exNative (pad : Bool) : Txn.Cfg :=
  { native := true, hack := false, pad := pad, receiveOnly := false, override := [] }

example (pad : Bool) : DistinctNames exEnv.dbis ∧
    ∀ m ∈ exSnap.dbs, MsgNotNewer (exNative pad) exSnap (exEnv.lastTxn + 1) 100 exEnv.dbis m := by
  refine ⟨by decide, ?_⟩
  intro m hm
  simp only [exSnap, List.mem_singleton] at hm
  subst hm
  intro _
  cases pad
  all_goals
    refine ⟨(by decide +kernel), (by decide +kernel), (fun h => by cases h), ?_⟩
    refine ⟨{ name := [0x61], flags := 0, kvs := [([1], liveBytes 50 3 [0x11]), ([2], markerBytes 60 4)] },
      rfl, by decide, ?_⟩
    intro en hen
    simp only [List.mem_cons, List.not_mem_nil, or_false] at hen
    rcases hen with rfl | rfl | rfl
    · exact ⟨by decide, { ts := 50, txn := 3, version := 0, flags := 0, numExtra := 0, extra := [] }, [0x11],
        (by decide +kernel), (by decide)⟩
    · exact ⟨by decide, { ts := 60, txn := 4, version := 0, flags := 1, numExtra := 0, extra := [] }, [],
        (by decide +kernel), (by decide)⟩
    · refine ⟨by decide, ?_⟩
      show Merge.stale _ _
      decide

/-- the conclusion on the instance, evaluated: same environment, no transaction recorded -/
example : loadOnce (exNative false) exEnv exSnap 7 1000 100
    = .ok { env := exEnv, txnID := 7, localChanged := false } := by decide +kernel

/-- shadow mode, a steady-state environment (application DBI "a" = projection of its shadow) -/
def exShadowEnv : Env :=
  { dbis := [{ name := shadowName [0x61], flags := 0,
               kvs := [([1], liveBytes 50 3 [0x11]), ([2], markerBytes 60 4)] },
             { name := [0x61], flags := 0, kvs := [([1], [0x11])] }],
    lastTxn := 7 }

def exShadowCfg (hack : Bool) : Txn.Cfg :=
  { native := false, hack := hack, pad := false, receiveOnly := false, override := [] }

/-- `C10_noop_txn_shadow` on the instance (the mirror invariant of the instance is checked in
    LsProps/C11.lean): same environment, no transaction recorded -/
example : loadOnce (exShadowCfg false) exShadowEnv exSnap 7 1000 100
    = .ok { env := exShadowEnv, txnID := 7, localChanged := false } := by decide +kernel

/-- `C10_dupsort_rewrites_same_content` on an instance: a duplicate-keys DBI after one mirror
    cycle (transaction 1); an empty snapshot and no local change: same content, but transaction 2
    is recorded and returned -/
example :
    (((mainToShadow (exShadowCfg true)
        { dbis := [{ name := [0x64], flags := 4, kvs := [([1], [0x0a]), ([1], [0x0b]), ([2], [0x0a])] }],
          dirty := false } 1 100 0).bind (shadowToMain (exShadowCfg true))).bind fun w =>
      (loadOnce (exShadowCfg true) { dbis := w.dbis, lastTxn := 1 } { fv := 3, cv := 1, dbs := [] } 1 200 0).map
        fun r => (decide (r.env.dbis = w.dbis), r.env.lastTxn, r.txnID, r.localChanged))
      = .ok (true, 2, 2, false) := by decide +kernel

end Ls.C10
