import LsLemmas.LoopI1
import LsProps.C11
/-
  C03 — A committed local application write is never destroyed by syncing.

  Over the sync-loop model (`LsModel/SyncLoop.lean`) with application transactions at every yield
  point. The full-strength statement is FALSE of the model and of the code (finding D9,
  `C03_race_witness`, replayed on the real loop through the yield hooks); what is proved for ALL
  schedules, of any length, is the `_partial` form: the invariant I1 for every schedule in which
  no recorded application transaction commits inside the race window `Racy`:

    the loop is at the yield point directly after a `LoadOnce` transaction that saw no local
    change (`Pc.loadAfterTxn txnID false …`) or directly after `SendOnce`'s transaction
    (`Pc.sendAfterTxn _ txnID …`), and that transaction turned out empty
    (`env.lastTxn < txnID`: LMDB did not record it and hands its id to the next writer).

  Ghost bookkeeping (`LsLemmas/LoopGhost.lean`, never read by the model): `uncap` = ids of the
  recorded application transactions since the last capture (a `LoadOnce` with `localChanged`, or
  `SendOnce`'s transaction; in native mode the ids since the last of these events).
-/
namespace Ls.C03
open Ls Ls.Lmdb Ls.Strategy Ls.Txn Ls.SyncLoop Ls.Loop

/-- **I1 holds after every race-free schedule** — any instance configuration, any start
    environment, any bucket, any list of events (loop segments with arbitrary receiver answers,
    store failures and clock readings; application transactions; listings; other instances'
    stores), of any length, provided no recorded application transaction commits inside the
    window `Racy` (see the head of this file). The excluded window is exactly the one of finding
    D9; `C03_race_witness` shows that I1 — and the application's write — is lost inside it. -/
theorem C03_I1_partial (c : LoopCfg) (env : Env) (b : Bucket) (evs : List Ev)
    (hrf : RaceFree c env b evs) : I1 (run c env b evs) :=
  i1_of_inv (inv0_run c env b evs) (inv1_run hrf)

/-- The same for the window as DESIGN.md names it (the yield point after ANY empty `LoadOnce` or
    `SendOnce` transaction): avoiding the wider window avoids the exact one. The exact window is
    smaller: after a `LoadOnce` that did see a local change the loop leaves `lastSynced` alone, so
    an application transaction reusing the id does no harm. -/
theorem C03_I1_partial_wide (c : LoopCfg) (env : Env) (b : Bucket) (evs : List Ev)
    (hrf : RaceFreeWide c env b evs) : I1 (run c env b evs) :=
  C03_I1_partial c env b evs hrf.raceFree

/-- I1 is an invariant: it holds at every point of a race-free schedule, not only at its end. -/
theorem C03_I1_prefix (c : LoopCfg) (env : Env) (b : Bucket) (evs evs' : List Ev)
    (hrf : RaceFree c env b (evs ++ evs')) : I1 (run c env b evs) := by
  refine C03_I1_partial c env b evs ?_
  unfold RaceFree at hrf ⊢
  generalize G.init env b = g at hrf ⊢
  induction evs generalizing g with
  | nil => trivial
  | cons e es ih => exact ⟨hrf.1, ih _ hrf.2⟩

/-- **Capture before project.** After a race-free schedule, if an application transaction is
    uncaptured and the loop now polls (`prePoll`: from `top`, or from `loadAfterTxn` unless it
    breaks off), then it enters `LoadOnce` with `lastSynced < lastTxn`: every `loadOnce` it can run
    from here reports `localChanged = true` — so in shadow mode `mainToShadow` runs before the
    merge and before `shadowToMain` (`Txn.loadOnce`), and the yield point reached carries
    `localChanged = true`. -/
theorem C03_capture_before_project (c : LoopCfg) (env : Env) (b : Bucket) (evs : List Ev)
    (hrf : RaceFree c env b evs) (s1 : St) (n p : Nat)
    (hp : prePoll (run c env b evs).st = some (s1, n)) (hu : p ∈ (run c env b evs).gh.uncap) :
    s1.lastSynced < s1.env.lastTxn ∧
    (∀ i, goRaw c (run c env b evs).bucket (run c env b evs).st i =
      (poll c (run c env b evs).bucket s1 i n, (run c env b evs).bucket)) ∧
    (∀ snap now cutoff r, loadOnce c.txn s1.env snap s1.lastSynced now cutoff = .ok r →
      r.localChanged = true) := by
  obtain ⟨h1, h2⟩ := prePoll_local_change (inv0_run c env b evs) (inv1_run hrf) hp hu
  refine ⟨by omega, fun i => goRaw_prePoll hp, fun snap now cutoff r hl => ?_⟩
  rw [(loadOnce_facts hl).2]
  simp; omega

/-- **The write survives the merge** (shadow mode; `C03_capture_before_project` discharging the
    local-change hypothesis of `C11_app_write_survives`). After a race-free schedule with an
    uncaptured application transaction, let the loop poll and load a snapshot `snap` at time
    `now`: if the application DBI `n` holds `k ↦ v` (`v ≠ []`; empty values are finding D7) and
    the shadow has no entry for `k` or an older, different one, then after the `LoadOnce` the
    application DBI still holds `k ↦ v` — unless the snapshot carries an entry for `k` that beats
    `(now, v)` last-writer-wins. The structural hypotheses are those of `C11_app_write_survives`
    (they are invariants of the transaction layer: `C11_step`, `C11_names_preserved`). -/
theorem C03_write_survives (c : LoopCfg) (env : Env) (b : Bucket) (evs : List Ev)
    (hrf : RaceFree c env b evs) (s1 : St) (n0 p : Nat)
    (hp : prePoll (run c env b evs).st = some (s1, n0)) (hu : p ∈ (run c env b evs).gh.uncap)
    (snap : Snap) (now cutoff : Nat) (r : LoadRes) (n : Bytes) (d : Dbi) (k v : Bytes)
    (hn : c.txn.native = false) (hdist : DistinctNames s1.env.dbis)
    (h : loadOnce c.txn s1.env snap s1.lastSynced now cutoff = .ok r)
    (hnow : now < two64) (htx : s1.env.lastTxn + 1 < two64)
    (hpn : isPrivate n = false) (hd : findDbi s1.env.dbis n = some d) (hnd : isDupSort d.flags = false)
    (hA : Sorted (isIntKey d.flags) d.kvs) (hAK : DKeysOK d.kvs)
    (hsh : ∀ sd, findDbi s1.env.dbis (shadowName n) = some sd →
      isIntKey sd.flags = isIntKey d.flags ∧ Sorted (isIntKey d.flags) sd.kvs ∧ DKeysOK sd.kvs)
    (hv : get (isIntKey d.flags) d.kvs k = some v) (hvne : v ≠ [])
    (hchg : (get (isIntKey d.flags) (shadowOf ⟨s1.env.dbis, false⟩ n d).kvs k).getD [] = [] ∨
      ∃ old hd a, get (isIntKey d.flags) (shadowOf ⟨s1.env.dbis, false⟩ n d).kvs k = some old ∧
        Header.parse old = .ok (hd, a) ∧ a ≠ v ∧ hd.ts < now)
    (hsnap : ∀ m ∈ snap.dbs, isPrivate m.name = false → m.name = n →
      ∀ en ∈ m.entries, kcmp (isIntKey d.flags) en.key k = 0 →
        Merge.keep (loadCfg c.txn snap (s1.env.lastTxn + 1) cutoff) en
          { ts := now, txn := s1.env.lastTxn + 1, version := 0, flags := 0, numExtra := 0, extra := [] } v) :
    ∃ d', findDbi r.env.dbis n = some d' ∧ get (isIntKey d.flags) d'.kvs k = some v :=
  have hloc := (C03_capture_before_project c env b evs hrf s1 n0 p hp hu).1
  let ⟨d', h1, h2, _⟩ := C11.C11_app_write_survives c.txn s1.env snap s1.lastSynced now cutoff r n d k v
    hn hdist h hloc hnow htx hpn hd hnd hA hAK hsh hv hvne hchg hsnap
  ⟨d', h1, h2⟩

/-! ## native schema -/

/-- the logical version behind a stored value with header `h` and application value `a` -/
def verOf (h : Header.Hdr) (a : Bytes) : Ver := { ts := h.ts, del := Header.isDeleted h.flags, val := a }

/-- **Native schema, one `LoadOnce`: never backwards, never lost.** If before a successful native
    `loadOnce` (cut-off 0, as the loop calls it) the DBI `name` stores for `key` a value that
    version `v` does not beat, then so it does afterwards: the key is still present, its value
    still parses, and `v` still does not beat it. (From `loadFold_native_mono`, the per-key fold of
    `Merge.merge` — `C02_never_backwards` — through `strategy.Update`, C19.) -/
theorem C03_native_txn (c : Txn.Cfg) (e : Env) (snap : Snap) (ls now : Nat) (r : LoadRes)
    (hn : c.native = true) (hdist : DistinctNames e.dbis) (hts : TargetsSorted snap.dbs e.dbis)
    (hent : EntriesWF snap.dbs) (htx : e.lastTxn + 1 < two64)
    (h : loadOnce c e snap ls now 0 = .ok r)
    (name key : Bytes) (v : Ver) (hge : StoredGE e.dbis name key v) :
    StoredGE r.env.dbis name key v := by
  obtain ⟨w1, hf, henv, _, _⟩ := loadOnce_native_ok hn h
  obtain ⟨_, _, hmono, _, _⟩ :=
    loadFold_native_mono hn htx hent snap.dbs (fun _ hm => hm) hf hdist hts
  rw [henv]
  exact hmono name key v hge

/-- **Native schema: no segment of the loop destroys a committed write — irrespective of the
    transaction-id bookkeeping** (no hypothesis on `lastSynced`, on the schedule so far, or on the
    race window). For a native-schema instance in any state whose DBIs have distinct names, with
    every blob of the bucket well-formed (entries well-formed with 64-bit timestamps; the DBIs
    they name sorted): if DBI `name` stores `old` for `key`, with header `h` and value `a`, then
    after the segment — start-up, merge of any snapshot, `SendOnce`, anything — the key is still
    stored, with a parsable value whose version the old one does not beat: it is the same version
    or one that wins last-writer-wins against it (`C02_order_strict_total`). -/
theorem C03_native (c : LoopCfg) (hn : c.txn.native = true) (b : Bucket) (s : St) (i : In)
    (hdist : DistinctNames s.env.dbis) (htx : s.env.lastTxn + 1 < two64)
    (hb : ∀ blob ∈ b, TargetsSorted blob.snap.dbs s.env.dbis ∧ EntriesWF blob.snap.dbs)
    (name key : Bytes) (d : Dbi) (old : Bytes) (h : Header.Hdr) (a : Bytes)
    (hd : findDbi s.env.dbis name = some d) (hv : get (isIntKey d.flags) d.kvs key = some old)
    (hp : Header.parse old = .ok (h, a)) :
    ∃ d' old' h' a', findDbi (go c b s i).1.env.dbis name = some d' ∧
      get (isIntKey d'.flags) d'.kvs key = some old' ∧ Header.parse old' = .ok (h', a') ∧
      ¬ (verOf h a).beats (verOf h' a') := by
  have hge : StoredGE s.env.dbis name key (verOf h a) :=
    ⟨d, hd, old, h, a, hv, hp, Ver.beats_irrefl _⟩
  have hge' : StoredGE (go c b s i).1.env.dbis name key (verOf h a) := by
    rcases go_env_native c hn b s i with he | ⟨s1, n, blob, r, _, _, hmem, hl, he⟩
    · rw [he]; exact hge
    · rw [he]
      exact C03_native_txn c.txn s.env blob.snap s1.lastSynced i.now r hn hdist (hb blob hmem).1
        (hb blob hmem).2 htx hl name key _ hge
  obtain ⟨d', hd', old', h', a', hv', hp', hnb⟩ := hge'
  exact ⟨d', old', h', a', hd', hv', hp', hnb⟩

/-! ## the race (finding D9) -/

open Ls.Loop.Witness in
/-- **I1 is not inductive on the unchanged code: the race destroys a committed write.**
    Shadow-mode instance "a", empty LMDB, bucket with one snapshot of "b" (`schedC03`):
    after the application's transaction the DBI holds `[2] ↦ "B"`; the schedule is not race-free
    (the commit lands right after an empty `LoadOnce` transaction and is recorded with that
    transaction's id 2); the loop then has `lastSynced = 2 = lastTxn` with transaction 2
    uncaptured — I1 fails; and after the next merge of b's snapshot, which has no entry for `[2]`
    at all, the application DBI is `[1] ↦ "A"` only: the committed key is gone, beaten by nothing. -/
theorem C03_race_witness :
    appKvs (run cfgS env0 bkt (schedC03.take 4)) = some [([1], [65]), ([2], [66])] ∧
    RaceFree cfgS env0 bkt (schedC03.take 3) ∧ ¬ RaceFree cfgS env0 bkt (schedC03.take 4) ∧
    Racy (run cfgS env0 bkt (schedC03.take 3)).st ∧
    (run cfgS env0 bkt (schedC03.take 7)).st.pc = .top ∧
    (run cfgS env0 bkt (schedC03.take 7)).gh.uncap = [2] ∧
    (run cfgS env0 bkt (schedC03.take 7)).st.lastSynced = 2 ∧
    ¬ I1 (run cfgS env0 bkt (schedC03.take 7)) ∧
    appKvs (run cfgS env0 bkt schedC03) = some [([1], [65])] ∧
    snapB.dbs.all (fun m => m.entries.all (fun e => e.key != [2])) = true := by
  refine ⟨by decide +kernel, by decide +kernel, by decide +kernel, by decide +kernel, by decide +kernel,
    by decide +kernel, by decide +kernel, ?_, by decide +kernel, by decide +kernel⟩
  have h1 : (run cfgS env0 bkt (schedC03.take 7)).st.pc = .top := by decide +kernel
  have h2 : (run cfgS env0 bkt (schedC03.take 7)).gh.uncap = [2] := by decide +kernel
  have h3 : (run cfgS env0 bkt (schedC03.take 7)).st.lastSynced = 2 := by decide +kernel
  intro h
  rcases h with h | ⟨e, h⟩ | h
  · rw [h1] at h; cases h
  · rw [h1] at h; cases h
  · have := (h 2 (by rw [h2]; exact List.mem_cons_self)).1
    rw [h3] at this; omega

open Ls.Loop.Witness in
/-- the same schedule on a native-schema instance destroys nothing (there is no projection from a
    shadow), see `C03_native`; what it loses is the upload (`C09_race_witness_native`) -/
theorem C03_race_native_harmless :
    (appKvs (run cfgN env0 bkt schedC03)).map (·.map (·.1)) = some [[1], [2]] := by decide +kernel

open Ls.Loop.Witness in
/-- the hypotheses of the `_partial` theorems are satisfiable: a race-free schedule with a recorded
    application transaction that is captured (`uncap` empty again) and survives -/
example : RaceFree cfgS env0 bkt schedOk ∧ (run cfgS env0 bkt schedOk).gh.allApp = [2] ∧
    (run cfgS env0 bkt schedOk).gh.uncap = [] ∧
    appKvs (run cfgS env0 bkt schedOk) = some [([1], [65]), ([2], [66])] := by
  refine ⟨by decide +kernel, by decide +kernel, by decide +kernel, by decide +kernel⟩

end Ls.C03
