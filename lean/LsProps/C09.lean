import LsLemmas.LoopWitness
/-
  C09 — Every committed local change gets published.

  Over the sync-loop model with application transactions at every yield point and arbitrary
  numbers of failing Store attempts. The full-strength statement is FALSE of the model and of the
  code (finding D9: `C09_race_witness`, `C09_race_witness_native`); what is proved for ALL
  schedules that avoid the race window `Racy` (named in `LsProps/C03.lean` and
  `LsLemmas/LoopGhost.lean`) is `C09_I2_partial`.

  Ghost bookkeeping (`LsLemmas/LoopGhost.lean`, never read by the model): a recorded application
  transaction goes into `allApp`, `unpub` and `sinceInfo`; when a dump begins (`SendOnce`'s
  transaction — the dump is the complete image of the LMDB at that transaction, `C06_complete`,
  so it covers every transaction recorded before) `unpub` moves to `inflight`; when the dump is
  stored `inflight` moves to `published`; `sinceInfo` is emptied by every `beforeInfo` segment.
-/
namespace Ls.C09
open Ls Ls.Txn Ls.SyncLoop Ls.Loop

/-- **I2 at idle (partial: race-free schedules).** After every schedule without a recorded
    application transaction inside the race window, of an instance that is not receive-only: if the
    loop is idle (`pc = sleep`: it has not ended) and its own instance is not in the start-up
    waiting set, then every application transaction LMDB ever recorded is covered by a dump that
    was stored in the bucket — or was committed after the `beforeInfo` step of the iteration that
    just ended (the next iteration sees `lastTxn > lastSynced`, `C09_I2_ids`, and sends).
    Exceptions, stated: (1) the race window (D9); (2) receive-only instances never store;
    (3) while the own instance is in the waiting set the loop deliberately does not upload (C05);
    (4) when Store fails `retryCount` times the loop ends with an error (`C09_retry`), it does not
    idle. The start-up guard `hasDataAtStart ∨ lastSynced > 0` is no exception:
    `C09_startup_guard_dead`. -/
theorem C09_I2_partial (c : LoopCfg) (env : Env) (b : Bucket) (evs : List Ev)
    (hrf : RaceFree c env b evs) (hro : c.txn.receiveOnly = false)
    (hidle : (run c env b evs).st.pc = .sleep) (hown : c.own ∉ (run c env b evs).st.waiting) :
    ∀ p ∈ (run c env b evs).gh.allApp,
      p ∈ (run c env b evs).gh.published ∨ p ∈ (run c env b evs).gh.sinceInfo := by
  have h0 := inv0_run c env b evs
  have h1 := inv1_run hrf
  unfold Inv1 at h1
  rw [hidle] at h1
  intro p hp
  have hin := h0.inflight hro (by rw [hidle]; rfl)
  rcases h0.cover p hp with h | h | h
  · exact Or.inr (h1.2 hown p h)
  · rw [hin] at h; cases h
  · exact Or.inl h

/-- **I2 in terms of transaction ids (partial: race-free schedules).** At the yield points where
    the loop has no send in progress (`top`, `loadAfterTxn`, `beforeInfo`, `sleep`, and `boot`),
    every application transaction not covered by a dump has an id above `lastSynced` and at most
    `lastTxn` — so `beforeInfo` finds `lastTxn > lastSynced` and uploads (unless the own instance
    is still waited for). -/
theorem C09_I2_ids (c : LoopCfg) (env : Env) (b : Bucket) (evs : List Ev)
    (hrf : RaceFree c env b evs)
    (hpc : (run c env b evs).st.pc = .boot ∨ (run c env b evs).st.pc = .top ∨
      (run c env b evs).st.pc = .beforeInfo ∨ (run c env b evs).st.pc = .sleep ∨
      ∃ t lc inst ts n, (run c env b evs).st.pc = .loadAfterTxn t lc inst ts n) :
    ∀ p ∈ (run c env b evs).gh.unpub,
      (run c env b evs).st.lastSynced < p ∧ p ≤ (run c env b evs).st.env.lastTxn := by
  have h0 := inv0_run c env b evs
  have h1 := inv1_run hrf
  unfold Inv1 at h1
  intro p hp
  refine ⟨?_, h0.all_le.2 p hp⟩
  rcases hpc with h | h | h | h | ⟨t, lc, inst, ts, n, h⟩ <;> rw [h] at h1
  · exact h1.2 p hp
  · exact h1.2 p hp
  · exact h1.2 p hp
  · exact h1.1.2 p hp
  · exact h1.1.2 p hp

/-- **The decision at `beforeInfo`**, for any state: with `lastTxn > lastSynced` and the own
    instance not waited for, the loop sets `lastSynced := lastTxn` and goes on to `SendOnce`. The
    branch "LMDB is empty, waiting for data" (`¬ hasDataAtStart ∧ lastSynced = 0` after the
    assignment) cannot be taken on this path: `lastTxn > lastSynced ≥ 0`. (That branch is
    reachable only through `snapshotOverdue`: an armed force flag with an empty LMDB. The
    statement holds whether or not the force flag is armed.) -/
theorem C09_startup_guard_dead (c : LoopCfg) (b : Bucket) (s : St) (i : In)
    (hpc : s.pc = .beforeInfo) (hgt : s.env.lastTxn > s.lastSynced)
    (hown : c.own ∉ s.waiting) :
    (go c b s i).1.pc = .beforeSend ∧ (go c b s i).1.lastSynced = s.env.lastTxn ∧
    (go c b s i).1.env = s.env := by
  obtain ⟨g1, _, g3, g4⟩ := go_pc c b s i
  rw [g1, g3, g4, goRaw_beforeInfo hpc, if_pos (Or.inl hgt), if_neg (by simpa using hown),
    if_pos (Or.inr (by omega))]
  exact ⟨rfl, rfl, rfl⟩

/-- **Store retries** (also C05's `C05_retry`). From the yield point after `SendOnce`'s transaction,
    not receive-only: with fewer failing attempts than the retry budget the dump — exactly the
    blob `(own, ts, snap)` of that transaction — is appended to the bucket and the loop is at
    `sendStored`; with the budget exhausted the loop ends with the error "store" and the bucket is
    unchanged. It never continues as if it had stored. -/
theorem C09_retry (c : LoopCfg) (b : Bucket) (s : St) (i : In) (who : Caller) (t ts : Nat) (snap : Snap)
    (hpc : s.pc = .sendAfterTxn who t ts snap) (hro : c.txn.receiveOnly = false) :
    (i.fails < c.retryCount →
      (go c b s i).2 = b ++ [{ inst := c.own, ts := ts, snap := snap }] ∧
      (go c b s i).1.pc = .sendStored who (if s.env.lastTxn < t then s.env.lastTxn else t) ∧
      (go c b s i).1.lastSynced = s.lastSynced) ∧
    (i.fails ≥ c.retryCount →
      (go c b s i).2 = b ∧ (go c b s i).1.pc = .exited (.err "store")) := by
  obtain ⟨g1, _, _, g4⟩ := go_pc c b s i
  rw [g1, g4, go_eq, goRaw_sendAfterTxn hpc]
  simp only [hro, Bool.false_eq_true, if_false]
  constructor
  · intro hf
    rw [if_neg (by omega)]
    exact ⟨rfl, rfl, rfl⟩
  · intro hf
    rw [if_pos hf]
    exact ⟨rfl, rfl⟩

/-- after a store, `lastSynced` becomes the transaction id `SendOnce` reported -/
theorem C09_after_store (c : LoopCfg) (b : Bucket) (s : St) (i : In) (who : Caller) (t : Nat)
    (hpc : s.pc = .sendStored who t) :
    (go c b s i).1.lastSynced = t ∧ (go c b s i).2 = b := by
  obtain ⟨_, _, _, g4⟩ := go_pc c b s i
  rw [g4, go_eq, goRaw_sendStored hpc]
  exact ⟨(sendReturned_facts c _ who t).2.1, rfl⟩

/-! ## the race (finding D9) -/

open Ls.Loop.Witness in
/-- **An application commit right after an empty `SendOnce` transaction is never uploaded.**
    Shadow-mode instance "a" (`schedC09`): the application's transaction that writes `[3]` lands on
    the yield point after `SendOnce`'s empty transaction and is recorded with id 4; the loop stores
    the dump — keys `[1]`, `[2]` — and sets `lastSynced := 4 = lastTxn`. After a whole further
    iteration the loop idles, the own instance is not waited for, transaction 4 is in neither
    `published` nor `sinceInfo` (the conclusion of `C09_I2_partial` fails), the LMDB holds `[3]`
    and the newest own snapshot does not. And it stays so FOREVER: from there, for every continuation of any
    length in which no application transaction is recorded — any receiver answers, any snapshots
    of others, any listings — the loop stores nothing (`synced_run`). -/
theorem C09_race_witness :
    ¬ RaceFree cfgS env0 bkt schedC09 ∧ RaceFree cfgS env0 bkt (schedC09.take 10) ∧
    Racy (run cfgS env0 bkt (schedC09.take 10)).st ∧
    (run cfgS env0 bkt schedC09).st.pc = .sleep ∧
    cfgS.own ∉ (run cfgS env0 bkt schedC09).st.waiting ∧
    (run cfgS env0 bkt schedC09).gh.allApp = [4, 2] ∧
    (run cfgS env0 bkt schedC09).gh.published = [2] ∧
    (run cfgS env0 bkt schedC09).gh.sinceInfo = [] ∧
    (appKvs (run cfgS env0 bkt schedC09)).map (·.map (·.1)) = some [[1], [2], [3]] ∧
    ownKeys (run cfgS env0 bkt schedC09) = some [[[1], [2]]] ∧
    (∀ evs, NoAppFrom cfgS (run cfgS env0 bkt schedC09) evs →
      (runFrom cfgS (run cfgS env0 bkt schedC09) evs).bucket =
        (run cfgS env0 bkt schedC09).bucket ++ othersOf evs) := by
  refine ⟨by decide +kernel, by decide +kernel, by decide +kernel, by decide +kernel, by decide +kernel,
    by decide +kernel, by decide +kernel, by decide +kernel, by decide +kernel, by decide +kernel, ?_⟩
  intro evs hna
  exact (synced_run cfgS _ evs (by decide +kernel) hna).2

open Ls.Loop.Witness in
/-- **Native schema: an application commit right after an empty `LoadOnce` transaction is never
    uploaded** (`schedC09n`; native `SendOnce` uses a read transaction, so in native mode the race
    exists only after `LoadOnce`). Nothing is destroyed (`C03_race_native_harmless`), but the loop
    idles with `lastSynced = lastTxn = 2`, transaction 2 unpublished, no own snapshot in the bucket
    at all — forever, as above. -/
theorem C09_race_witness_native :
    ¬ RaceFree cfgN env0 bkt schedC09n ∧
    (run cfgN env0 bkt schedC09n).st.pc = .sleep ∧
    cfgN.own ∉ (run cfgN env0 bkt schedC09n).st.waiting ∧
    (run cfgN env0 bkt schedC09n).gh.allApp = [2] ∧
    (run cfgN env0 bkt schedC09n).gh.published = [] ∧
    (run cfgN env0 bkt schedC09n).gh.sinceInfo = [] ∧
    (appKvs (run cfgN env0 bkt schedC09n)).map (·.map (·.1)) = some [[1], [2]] ∧
    ownKeys (run cfgN env0 bkt schedC09n) = none ∧
    (∀ evs, NoAppFrom cfgN (run cfgN env0 bkt schedC09n) evs →
      (runFrom cfgN (run cfgN env0 bkt schedC09n) evs).bucket =
        (run cfgN env0 bkt schedC09n).bucket ++ othersOf evs) := by
  refine ⟨by decide +kernel, by decide +kernel, by decide +kernel, by decide +kernel, by decide +kernel,
    by decide +kernel, by decide +kernel, by decide +kernel, ?_⟩
  intro evs hna
  exact (synced_run cfgN _ evs (by decide +kernel) hna).2

open Ls.Loop.Witness in
/-- the hypotheses of `C09_I2_partial` are satisfiable, and its conclusion is the interesting
    disjunct: a race-free schedule whose application transaction is published (the newest own
    snapshot contains the key) -/
example : RaceFree cfgS env0 bkt schedOk ∧ cfgS.txn.receiveOnly = false ∧
    (run cfgS env0 bkt schedOk).st.pc = .sleep ∧ cfgS.own ∉ (run cfgS env0 bkt schedOk).st.waiting ∧
    (run cfgS env0 bkt schedOk).gh.allApp = [2] ∧ (run cfgS env0 bkt schedOk).gh.published = [2] ∧
    ownKeys (run cfgS env0 bkt schedOk) = some [[[1], [2]]] := by
  refine ⟨by decide +kernel, rfl, by decide +kernel, by decide +kernel, by decide +kernel,
    by decide +kernel, by decide +kernel⟩

end Ls.C09
