import LsLemmas.LoopWitness
/-
  C05 (sync-loop part) — an instance whose name already has snapshots in the bucket uploads
  nothing before it has merged its own newest one; a failed Store is fatal, never skipped.
  For EVERY schedule. (The bucket-level join invariant of C05 is a `Fleet` property.)
  The guard holds with a forced periodic snapshot overdue as well (last section).
-/
namespace Ls.C05
open Ls Ls.Txn Ls.SyncLoop Ls.Loop

/-- **No upload while the own instance is waited for.** In every schedule, whenever a segment
    stores a blob, the own instance is not in the waiting set; and for the start-up `SendOnce`
    (`Caller.initial`) the waiting set is empty altogether — it only happens when the bucket
    listing at start-up was empty (`C05_startup_send_only_if_empty`), so no own snapshot existed. -/
theorem C05_no_upload_before_own (c : LoopCfg) (env : Env) (b : Bucket) (evs : List Ev) (i : In)
    (hst : Stores c (run c env b evs).st i) :
    c.own ∉ (run c env b evs).st.waiting ∧
    (∀ t ts snap, (run c env b evs).st.pc = .sendAfterTxn .initial t ts snap →
      (run c env b evs).st.waiting = []) := by
  have h0 := (inv0_run c env b evs).pcinv
  obtain ⟨⟨who, t, ts, snap, hpc⟩, _⟩ := hst
  rw [hpc] at h0
  refine ⟨h0.2.2.2.2.2.1, fun t' ts' snap' h => ?_⟩
  rw [hpc] at h
  injection h with hw
  exact h0.2.2.2.2.2.2 hw

/-- the same at the yield points before and after the store: `SendOnce` is entered, and its
    result stored, only with the own instance out of the waiting set -/
theorem C05_send_part_guard (c : LoopCfg) (env : Env) (b : Bucket) (evs : List Ev)
    (hpc : (run c env b evs).st.pc = .beforeSend ∨
      (∃ who t ts snap, (run c env b evs).st.pc = .sendAfterTxn who t ts snap) ∨
      ∃ who t, (run c env b evs).st.pc = .sendStored who t) :
    c.own ∉ (run c env b evs).st.waiting := by
  have h0 := (inv0_run c env b evs).pcinv
  rcases hpc with h | ⟨who, t, ts, snap, h⟩ | ⟨who, t, h⟩ <;> rw [h] at h0
  · exact h0.2
  · exact h0.2.2.2.2.2.1
  · exact h0.2.2.2.2.2.1

/-- **The start-up `SendOnce` happens only into an empty bucket**: if the start-up segment ends at
    the yield point after a `SendOnce` transaction, the bucket it listed was empty (and the LMDB
    non-empty). -/
theorem C05_startup_send_only_if_empty (c : LoopCfg) (b : Bucket) (s : St) (i : In)
    (hpc : s.pc = .boot) (who : Caller) (t ts : Nat) (snap : Snap)
    (h : (go c b s i).1.pc = .sendAfterTxn who t ts snap) :
    b = [] ∧ s.env.lastTxn > 0 ∧ who = .initial ∧ (go c b s i).1.waiting = [] := by
  obtain ⟨g1, g2, _, _⟩ := go_pc c b s i
  rw [g1] at h
  rw [g2]
  obtain ⟨_, hb⟩ := goRaw_boot (c := c) (b := b) (i := i) hpc
  generalize (goRaw c b s i).1 = s' at hb h
  cases hb with
  | captureFailed e s0 e1 e2 e3 => cases h
  | noSend s0 e1 e2 e3 e4 e5 e6 e7 => cases h
  | send s0 e1 e2 e3 e4 e5 e6 e7 =>
    have hout := beginSend_out c s0 .initial i.now
    generalize beginSend c s0 .initial i.now = s'' at hout h
    cases hout with
    | failed e he => cases h
    | dumped r hr =>
      injection h with hw
      exact ⟨e7, e6, hw.symm, e2⟩

/-- **How the own instance (any instance) leaves the waiting set** after start-up: only by a
    segment in which `poll` found one of its snapshots in the bucket and began to load it
    (`pollTarget`), or in which `afterLoads` ran while the receiver no longer saw the instance
    (its snapshots disappeared). Nothing else removes it, and nothing adds to the set. -/
theorem C05_own_leaves_waiting (c : LoopCfg) (b : Bucket) (s : St) (i : In) (x : InstId)
    (hboot : s.pc ≠ .boot) (hx : x ∈ s.waiting) (hx' : x ∉ (go c b s i).1.waiting) :
    pollTarget b s i = some x ∨ (runsAfterLoads s i = true ∧ x ∉ s.seen) :=
  waiting_leave c b s i x hboot hx hx'

/-- `C05_retry`: a failing Store within the budget ends in the store of the same blob; with the
    budget exhausted the loop returns an error and the bucket is unchanged. -/
theorem C05_retry (c : LoopCfg) (b : Bucket) (s : St) (i : In)
    (hpc : ∃ who t ts snap, s.pc = .sendAfterTxn who t ts snap) (hro : c.txn.receiveOnly = false) :
    (i.fails < c.retryCount → ∃ blob, dumpBlob c s = some blob ∧ (go c b s i).2 = b ++ [blob]) ∧
    (i.fails ≥ c.retryCount → (go c b s i).2 = b ∧ (go c b s i).1.pc = .exited (.err "store")) := by
  obtain ⟨who, t, ts, snap, hpc⟩ := hpc
  constructor
  · intro hf
    rcases go_bucket c b s i with ⟨_, h⟩ | ⟨h, _⟩
    · exact h
    · exact absurd ⟨⟨who, t, ts, snap, hpc⟩, hro, hf⟩ h
  · intro hf
    rw [(go_pc c b s i).1, go_eq, goRaw_sendAfterTxn hpc]
    simp only [hro, Bool.false_eq_true, if_false, if_pos hf]
    trivial

/-! ## the guard and the forced periodic snapshot (`storage_force_snapshot_interval`)

  `C05_startup_send_only_if_empty`, `C05_own_leaves_waiting` and `C05_retry` above are about `go`
  from an arbitrary state: they hold whether or not the force flag is armed. The schedules of
  `C05_no_upload_before_own` / `C05_send_part_guard` (`run`, events `Ev`) never arm it; here are
  the same statements for schedules WITH the harness's arming event (`runA`, events `EvA`: an
  `Ev`, or `arm` — at any yield point), and the decisive step on its own. -/

/-- **A forced snapshot does not bypass the own-instance guard.** At the change check
    (`beforeInfo`) with a snapshot overdue (`forceArmed = true`) and the own instance in the
    waiting set — whatever `lastTxn` and `lastSynced` are —, the segment does not reach
    `beforeSend`: the loop goes to sleep (it cannot end either: the waiting set is not empty),
    nothing is stored, nothing else changes, and the snapshot stays overdue. -/
theorem C05_forced_respects_own_guard (c : LoopCfg) (b : Bucket) (s : St) (i : In)
    (hpc : s.pc = .beforeInfo) (harm : s.forceArmed = true) (hown : c.own ∈ s.waiting) :
    (go c b s i).1.pc ≠ .beforeSend ∧ (go c b s i).1.pc = .sleep ∧ (go c b s i).2 = b ∧
    (go c b s i).1.waiting = s.waiting ∧ (go c b s i).1.lastSynced = s.lastSynced ∧
    (go c b s i).1.env = s.env ∧ (go c b s i).1.forceArmed = true := by
  obtain ⟨g1, g2, g3, g4⟩ := go_pc c b s i
  have hb : (go c b s i).2 = b := by
    rcases go_bucket c b s i with ⟨⟨⟨who, t, ts, snap, hp⟩, _⟩, _⟩ | ⟨_, hb⟩
    · rw [hpc] at hp; cases hp
    · exact hb
  have hf : (go c b s i).1.forceArmed = true := by rw [go_force, hpc]; exact harm
  have hraw : goRaw c b s i = (afterSend c s, b) := by
    rw [goRaw_beforeInfo hpc, if_pos (Or.inr harm), if_pos (by simpa using hown)]
  rw [g1, g2, g3, g4, hraw]
  obtain ⟨f1, f2, f3, _, _, _⟩ := afterSend_facts c s
  have hsl : (afterSend c s).pc = .sleep := by
    rw [afterSend_pc, if_neg]
    rintro ⟨_, hw⟩
    rw [hw] at hown; cases hown
  exact ⟨by simp only [hsl]; exact fun h => (nomatch h), hsl, hb, f3, f2, f1, hf⟩

/-- **No upload while the own instance is waited for — schedules with arming.** As
    `C05_no_upload_before_own`, for every schedule of loop segments, application transactions,
    listings, other instances' stores AND armings of the force flag at arbitrary yield points. -/
theorem C05_no_upload_before_own_armed (c : LoopCfg) (env : Env) (b : Bucket) (evs : List EvA) (i : In)
    (hst : Stores c (runA c env b evs).st i) :
    c.own ∉ (runA c env b evs).st.waiting ∧
    (∀ t ts snap, (runA c env b evs).st.pc = .sendAfterTxn .initial t ts snap →
      (runA c env b evs).st.waiting = []) := by
  have h0 := ownGuard_runA c env b evs
  obtain ⟨⟨who, t, ts, snap, hpc⟩, _⟩ := hst
  unfold OwnGuard at h0
  rw [hpc] at h0
  refine ⟨h0.1, fun t' ts' snap' h => ?_⟩
  rw [hpc] at h
  injection h with hw
  exact h0.2 hw

/-- … and at the yield points before and after the store (as `C05_send_part_guard`) -/
theorem C05_send_part_guard_armed (c : LoopCfg) (env : Env) (b : Bucket) (evs : List EvA)
    (hpc : (runA c env b evs).st.pc = .beforeSend ∨
      (∃ who t ts snap, (runA c env b evs).st.pc = .sendAfterTxn who t ts snap) ∨
      ∃ who t, (runA c env b evs).st.pc = .sendStored who t) :
    c.own ∉ (runA c env b evs).st.waiting := by
  have h0 := ownGuard_runA c env b evs
  unfold OwnGuard at h0
  rcases hpc with h | ⟨who, t, ts, snap, h⟩ | ⟨who, t, h⟩ <;> rw [h] at h0
  · exact h0
  · exact h0.1
  · exact h0.1

/-- the guard as a one-step invariant of `go` from ANY state (armed or not): if at the yield
    points of the send part the own instance is not waited for (`OwnGuard`), the same holds after
    one more segment; arming, application transactions and listings do not touch it -/
theorem C05_guard_step (c : LoopCfg) (b : Bucket) (s : St) (i : In) (h : OwnGuard c s) :
    OwnGuard c (go c b s i).1 ∧ OwnGuard c (armForce s) :=
  ⟨ownGuard_go c b s i h, h⟩

open Ls.Loop.Witness in
/-- the hypotheses are satisfiable: instance "a" starts on a bucket that holds a snapshot of its
    own name; with the clock turned back at `top` the forced change check (third segment) still
    does not send while "a" is waited for — after the iteration nothing is stored and the snapshot
    is still overdue; once the own snapshot has been merged, the forced upload happens -/
example :
    let bA : Bucket := [{ inst := "a", ts := 1, snap := snapB }]
    let wait : List EvA := [.ev (.go (inp none)), .arm, .ev (.go (inp none)), .ev (.go (inp none)),
      .ev (.go (inp none))]
    let merge : List EvA := [.ev (.go (inp (some ("a", 1)))), .ev (.go (inp none)), .ev (.go (inp none)),
      .ev (.go (inp none)), .ev (.go (inp none)), .ev (.go (inp none))]
    (runA cfgS env0 bA (wait.take 3)).st.pc = .beforeInfo ∧
    (runA cfgS env0 bA (wait.take 3)).st.forceArmed = true ∧
    cfgS.own ∈ (runA cfgS env0 bA (wait.take 3)).st.waiting ∧
    (runA cfgS env0 bA wait).st.pc = .top ∧ (runA cfgS env0 bA wait).bucket = bA ∧
    (runA cfgS env0 bA wait).st.forceArmed = true ∧
    (runA cfgS env0 bA (wait ++ merge)).bucket.length = 2 ∧
    (runA cfgS env0 bA (wait ++ merge)).st.forceArmed = false := by
  refine ⟨by decide +kernel, by decide +kernel, by decide +kernel, by decide +kernel, by decide +kernel,
    by decide +kernel, by decide +kernel, by decide +kernel⟩

end Ls.C05
