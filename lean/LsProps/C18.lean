import LsLemmas.TxnLoad
/-
  C18 — A snapshot is merged all-or-nothing, for every supported format version.
  Model: LsModel/Txn.lean (`loadOnce`, `loadDbi`, `validateTransform`, `versionOk`, `commit`),
  LsModel/Merge.lean (`addHeader`, `merge`). Helper lemmas: LsLemmas/TxnLoad.lean,
  LsLemmas/TxnDbis.lean. Property theorems only.

  Vocabulary (definitions in LsLemmas/TxnLoad.lean):
  * `preLoad c e lastSynced now cutoff` — the transaction state the snapshot is merged into
    (`mainToShadow` first when the schema is not native and the application wrote since the last
    sync); `postLoad c w` — `shadowToMain` when the schema is not native;
  * `ovrOf c m` — `dbi_options.override_create_flags` for the message's DBI;
    `createFlags c m = (override, else the message's flags) mod 2^16`;
    `shadowCreateFlags c m = createFlags c m &&& Gen.allowedShadowDBIFlagsMask`;
  * `targetName c m` — the DBI merged into: `m.name` (native) or `shadowName m.name`;
  * `createDbis`, `mergeDbi` — the two phases of `loadDbi` (`loadDbi_eq`).

  Trusted, not proved (DESIGN.md §5): that LMDB's `txn.Abort` leaves the environment unchanged
  and that readers never see an uncommitted transaction. The model expresses this by
  construction (`loadOnce : … → Except Err LoadRes` yields no environment in the error case).
-/
namespace Ls.C18
open Ls Ls.Lmdb Ls.Strategy Ls.Txn
open Ls.Merge (KV norm entryDeleted maskedFlags addHeader decodeS Bounded stale)

/-! ## 1. all or nothing -/

/-- the environment a caller holds after a `LoadOnce` attempt -/
def applyLoad (e : Env) (r : Except Err LoadRes) : Env :=
  match r with
  | .ok x => x.env
  | .error _ => e

/-- **All or nothing.** After a failing `loadOnce` the caller's environment is the one it had:
    no environment is produced in the error case, whatever was created or written in the
    transaction state before the failure. In the success case the new environment is the commit
    of one transaction state, the reported id is LMDB's last transaction id afterwards, and that
    id is the old one or the old one plus one. The atomicity of the abort itself — that LMDB
    discards the partial writes and that concurrent readers never observe them — is LMDB's
    (trusted, DESIGN.md §5); the model expresses it by construction. The substantive content of
    C18 is in the theorems below. -/
theorem C18_all_or_nothing (c : Cfg) (e : Env) (snap : Snap) (lastSynced now cutoff : Nat) :
    (∀ err, loadOnce c e snap lastSynced now cutoff = .error err →
      applyLoad e (loadOnce c e snap lastSynced now cutoff) = e) ∧
    (∀ r, loadOnce c e snap lastSynced now cutoff = .ok r →
      applyLoad e (loadOnce c e snap lastSynced now cutoff) = r.env ∧
      (∃ w, r.env = commit e w) ∧ r.txnID = r.env.lastTxn ∧
      (r.env.lastTxn = e.lastTxn ∨ r.env.lastTxn = e.lastTxn + 1)) := by
  constructor
  · intro err h; rw [h]; rfl
  · intro r h
    refine ⟨by rw [h]; rfl, ?_⟩
    rw [loadOnce_eq] at h
    split at h
    · cases h
    · split at h
      · cases h
      · split at h
        · cases h
        · rename_i w2 _
          injection h with h; subst h
          refine ⟨⟨w2, rfl⟩, rfl, ?_⟩
          simp only [commit]
          cases w2.dirty <;> simp

/-- **A failure in any DBI message, at any position, fails the whole load** — even when all
    earlier messages were merged successfully into the transaction state: with `snap.dbs = pre ++
    m :: post`, if the messages of `pre` merge and `m` fails with `err`, then `loadOnce` fails with
    `err` and (by `C18_all_or_nothing`) the environment stays `e`. -/
theorem C18_failure_anywhere (c : Cfg) (e : Env) (snap : Snap) (lastSynced now cutoff : Nat)
    (pre post : List DbiMsg) (m : DbiMsg) (w0 w1 : W) (err : Err)
    (hsnap : snap.dbs = pre ++ m :: post)
    (h0 : preLoad c e lastSynced now cutoff = .ok w0)
    (hpre : pre.foldlM (loadDbi c snap (e.lastTxn + 1) cutoff) w0 = .ok w1)
    (hm : loadDbi c snap (e.lastTxn + 1) cutoff w1 m = .error err) :
    loadOnce c e snap lastSynced now cutoff = .error err ∧
    applyLoad e (loadOnce c e snap lastSynced now cutoff) = e := by
  have h : loadOnce c e snap lastSynced now cutoff = .error err := by
    rw [loadOnce_eq, h0, hsnap]
    simp only [List.foldlM_append, hpre, List.foldlM_cons, hm, bind, Except.bind]
  exact ⟨h, by rw [h]; rfl⟩

/-! ## 2. the gates -/

/-- **The version gate of `NewNativeIterator`, for all 32-bit (indeed all natural) values:** a
    format / compat version pair is refused exactly when the format version is 0, or the compat
    version is newer than this build's format version, or the format version is older than the
    oldest one still supported. -/
theorem C18_version_gate (fv cv : Nat) :
    (versionOk fv cv = false ↔
      fv = 0 ∨ cv > Gen.currentFormatVersion ∨ fv < Gen.compatFormatVersion) ∧
    (versionOk fv cv = true ↔
      fv ≠ 0 ∧ cv ≤ Gen.currentFormatVersion ∧ Gen.compatFormatVersion ≤ fv) :=
  ⟨versionOk_false_iff fv cv, versionOk_true_iff fv cv⟩

/-- the supported range with this build's constants: format versions 1, 2, 3, … with a compat
    version of at most 3 -/
theorem C18_version_gate_consts :
    Gen.currentFormatVersion = 3 ∧ Gen.compatFormatVersion = 1 ∧
    ∀ fv cv, versionOk fv cv = true ↔ 1 ≤ fv ∧ cv ≤ 3 := by
  refine ⟨rfl, rfl, ?_⟩
  intro fv cv
  rw [versionOk_true_iff]
  simp only [Gen.currentFormatVersion, Gen.compatFormatVersion]
  omega

/-- **Both gates guard every successful load.** If `loadOnce` succeeds, every non-private
    message of the snapshot passed `validateTransform`, and if there is at least one non-private
    message the snapshot's versions passed the version gate. Conversely, a snapshot with at least
    one non-private message whose versions are refused (or one of whose non-private messages
    fails `validateTransform`) makes `loadOnce` fail — with some error: an earlier message or
    `mainToShadow` may have failed first with a different one. -/
theorem C18_gates (c : Cfg) (e : Env) (snap : Snap) (lastSynced now cutoff : Nat) :
    (∀ r, loadOnce c e snap lastSynced now cutoff = .ok r →
      (∀ m ∈ snap.dbs, isPrivate m.name = false → validateTransform m snap.fv c.native = true) ∧
      ((∃ m ∈ snap.dbs, isPrivate m.name = false) → versionOk snap.fv snap.cv = true)) ∧
    ((∃ m ∈ snap.dbs, isPrivate m.name = false) → versionOk snap.fv snap.cv = false →
      ∃ err, loadOnce c e snap lastSynced now cutoff = .error err) ∧
    ((∃ m ∈ snap.dbs, isPrivate m.name = false ∧ validateTransform m snap.fv c.native = false) →
      ∃ err, loadOnce c e snap lastSynced now cutoff = .error err) := by
  have main : ∀ r, loadOnce c e snap lastSynced now cutoff = .ok r →
      ∀ m ∈ snap.dbs, isPrivate m.name = false →
        validateTransform m snap.fv c.native = true ∧ versionOk snap.fv snap.cv = true := by
    intro r h
    rw [loadOnce_eq] at h
    split at h
    · cases h
    · split at h
      · cases h
      · exact loadFold_gates snap.dbs _ _ (by assumption)
  refine ⟨?_, ?_, ?_⟩
  · intro r h
    exact ⟨fun m hm hp => (main r h m hm hp).1, fun ⟨m, hm, hp⟩ => (main r h m hm hp).2⟩
  · rintro ⟨m, hm, hp⟩ hv
    cases hl : loadOnce c e snap lastSynced now cutoff with
    | error err => exact ⟨err, rfl⟩
    | ok r => have := (main r hl m hm hp).2; rw [hv] at this; cases this
  · rintro ⟨m, hm, hp, hv⟩
    cases hl : loadOnce c e snap lastSynced now cutoff with
    | error err => exact ⟨err, rfl⟩
    | ok r => have := (main r hl m hm hp).1; rw [hv] at this; cases this

/-- **Which error:** when the first non-private message is reached with a refused version pair
    (all earlier messages private, `preLoad` fine, the message's transform valid and its DBIs
    creatable), the error is the version error — raised after the DBIs were created in the
    transaction state, so the refusal relies on the abort. -/
theorem C18_gate_after_create (c : Cfg) (e : Env) (snap : Snap) (lastSynced now cutoff : Nat)
    (pre post : List DbiMsg) (m : DbiMsg) (w0 w1 : W)
    (hsnap : snap.dbs = pre ++ m :: post) (hpre : ∀ x ∈ pre, isPrivate x.name = true)
    (h0 : preLoad c e lastSynced now cutoff = .ok w0)
    (hp : isPrivate m.name = false) (hv : validateTransform m snap.fv c.native = true)
    (hc : createDbis c snap w0 m = .ok w1) (hver : versionOk snap.fv snap.cv = false) :
    loadOnce c e snap lastSynced now cutoff = .error .version := by
  refine (C18_failure_anywhere c e snap lastSynced now cutoff pre post m w0 w0 .version hsnap h0
    (loadFold_private pre w0 hpre) ?_).1
  rw [loadDbi_eq]
  simp only [hp, hv, hc, Bool.false_eq_true, if_false, Bool.true_eq_false]
  unfold mergeDbi
  have hex : ∃ td, findDbi w1.dbis (targetName c m) = some td := by
    rw [createDbis_lookup hc]
    unfold targetName
    cases c.native <;> simp
  obtain ⟨td, htd⟩ := hex
  rw [htd]
  simp only [hver, if_true]

/-! ## 3. a snapshot without application DBIs -/

/-- **A snapshot all of whose messages are private (or that has none) is a no-op, whatever its
    version fields say** — the gates sit inside the per-DBI loop. Precisely: such a load equals the
    load of the empty snapshot (any version fields); for a native schema it succeeds with the
    environment unchanged and the id `e.lastTxn`; for a shadow schema without local changes
    (`lastSynced ≥ e.lastTxn`) it is `shadowToMain` alone. -/
theorem C18_empty_snapshot_noop (c : Cfg) (e : Env) (snap : Snap) (lastSynced now cutoff : Nat)
    (hall : ∀ m ∈ snap.dbs, isPrivate m.name = true) :
    (∀ fv cv, loadOnce c e snap lastSynced now cutoff =
      loadOnce c e { fv := fv, cv := cv, dbs := [] } lastSynced now cutoff) ∧
    (c.native = true →
      loadOnce c e snap lastSynced now cutoff =
        .ok { env := e, txnID := e.lastTxn, localChanged := decide (lastSynced < e.lastTxn) }) ∧
    (c.native = false → e.lastTxn ≤ lastSynced →
      loadOnce c e snap lastSynced now cutoff =
        match shadowToMain c { dbis := e.dbis, dirty := false } with
        | .error err => .error err
        | .ok w => .ok { env := commit e w, txnID := (commit e w).lastTxn, localChanged := false }) := by
  have hfold : ∀ w0, snap.dbs.foldlM (loadDbi c snap (e.lastTxn + 1) cutoff) w0 = .ok w0 :=
    fun w0 => loadFold_private snap.dbs w0 hall
  refine ⟨?_, ?_, ?_⟩
  · intro fv cv
    rw [loadOnce_eq, loadOnce_eq]
    cases preLoad c e lastSynced now cutoff with
    | error err => rfl
    | ok w0 => simp only [hfold]; rfl
  · intro hn
    rw [loadOnce_eq]
    simp only [preLoad, hn, Bool.true_eq_false, false_and, if_false, hfold, postLoad, if_true, commit,
      Bool.false_eq_true]
  · intro hn hl
    rw [loadOnce_eq]
    have hl' : ¬ lastSynced < e.lastTxn := by omega
    simp only [preLoad, hn, hl', and_false, if_false, hfold, postLoad, Bool.false_eq_true,
      decide_false]
    rfl

/-! ## 4. the transform table -/

/-- **Decision table of `ValidateTransform`, for all transform strings, flags and format
    versions.** A message passes iff (1) its transform is one of the supported ones (none, or
    `dupsort_hack_v1`), (2) a native schema gets no transform at all, and (3) from format version 3
    on the duplicate-keys flag is set exactly when the transform is `dupsort_hack_v1`; before
    version 3 there is no such consistency check. The flag test is on `uint(flags)`, which does
    not affect the duplicate-keys bit (`isDupSort_mod`). -/
theorem C18_transform_table (m : DbiMsg) (fv : Nat) (native : Bool) :
    (validateTransform m fv native = true ↔
      (m.transform = [] ∨ m.transform = strBytes Gen.transformDupSortHackV1) ∧
      (native = true → m.transform = []) ∧
      (fv ≥ 3 → (isDupSort m.flags = true ↔ m.transform = strBytes Gen.transformDupSortHackV1))) ∧
    -- the rows of the table, one by one
    (m.transform ≠ [] → m.transform ≠ strBytes Gen.transformDupSortHackV1 →
      validateTransform m fv native = false) ∧
    (native = true → m.transform ≠ [] → validateTransform m fv native = false) ∧
    (fv ≥ 3 → isDupSort m.flags = true → m.transform = [] → validateTransform m fv native = false) ∧
    (fv ≥ 3 → isDupSort m.flags = false → m.transform = strBytes Gen.transformDupSortHackV1 →
      validateTransform m fv native = false) ∧
    (fv < 3 → m.transform = [] → validateTransform m fv native = true) ∧
    (fv < 3 → native = false → m.transform = strBytes Gen.transformDupSortHackV1 →
      validateTransform m fv native = true) ∧
    (fv ≥ 3 → isDupSort m.flags = false → m.transform = [] → validateTransform m fv native = true) ∧
    (fv ≥ 3 → native = false → isDupSort m.flags = true →
      m.transform = strBytes Gen.transformDupSortHackV1 → validateTransform m fv native = true) := by
  have hsup : transformSupported m.transform = true ↔
      (m.transform = [] ∨ m.transform = strBytes Gen.transformDupSortHackV1) := by
    simp [transformSupported]
  have key := validateTransform_iff m fv native
  rw [hsup] at key
  have hne := dupsortTransform_ne_nil
  have hf : ∀ {b : Bool}, ¬ b = true → b = false := by intro b hb; cases b <;> simp_all
  refine ⟨key, ?_, ?_, ?_, ?_, ?_, ?_, ?_, ?_⟩
  · intro h1 h2
    exact hf (fun h => by rcases (key.mp h).1 with h' | h' <;> contradiction)
  · intro h1 h2
    exact hf (fun h => h2 ((key.mp h).2.1 h1))
  · intro h1 h2 h3
    refine hf (fun h => ?_)
    have := ((key.mp h).2.2 h1).mp h2
    rw [h3] at this; exact hne this.symm
  · intro h1 h2 h3
    refine hf (fun h => ?_)
    have := ((key.mp h).2.2 h1).mpr h3
    rw [h2] at this; cases this
  · intro h1 h2
    exact key.mpr ⟨Or.inl h2, fun _ => h2, fun h3 => by omega⟩
  · intro h1 h2 h3
    exact key.mpr ⟨Or.inr h3, fun hn => (by rw [h2] at hn; cases hn), fun h4 => by omega⟩
  · intro h1 h2 h3
    refine key.mpr ⟨Or.inl h3, fun _ => h3, fun _ => ?_⟩
    rw [h2, h3]
    constructor
    · intro h; cases h
    · intro h; exact absurd h.symm hne
  · intro h1 h2 h3 h4
    refine key.mpr ⟨Or.inr h4, fun hn => (by rw [h2] at hn; cases hn), fun _ => ?_⟩
    rw [h3]
    exact ⟨fun _ => h4, fun _ => rfl⟩

/-! ## 5. private DBIs in a snapshot -/

/-- **A private DBI message is ignored:** the transaction state is returned unchanged, before
    any check — whatever the message's transform, flags, entries, and whatever the snapshot's
    versions. -/
theorem C18_private_skipped (c : Cfg) (snap : Snap) (txnID cutoff : Nat) (w : W) (m : DbiMsg)
    (hp : isPrivate m.name = true) : loadDbi c snap txnID cutoff w m = .ok w :=
  loadDbi_private hp

/-! ## 6. DBI creation -/

/-- **When and with which flags DBIs are created from a snapshot message** (non-private, transform
    valid). `loadDbi` is DBI creation followed by the merge (`loadDbi_eq`), and:

    * shadow mode, application DBI missing, snapshot older than v3 and no override: refused with
      `createUnsafe` (a pre-v3 snapshot carries the shadow DBI's flags, not the application
      DBI's);
    * otherwise, after a successful `loadDbi`, in shadow mode a previously missing application DBI
      exists, is empty, and has the flags `createFlags` (override if any, else the message's
      flags, mod 2^16) — which can only happen for `fv ≥ 3` or with an override; a previously
      missing shadow DBI exists with `createFlags` restricted to `Gen.allowedShadowDBIFlagsMask`;
    * native: a previously missing DBI exists with the flags `createFlags`;
    * framing: a DBI that existed keeps its name and flags, and every DBI other than the merge
      target keeps its content too. -/
theorem C18_create_rules (c : Cfg) (snap : Snap) (txnID cutoff : Nat) (w : W) (m : DbiMsg)
    (hp : isPrivate m.name = false) (hv : validateTransform m snap.fv c.native = true) :
    -- refusal
    (c.native = false → findDbi w.dbis m.name = none → snap.fv < 3 → ovrOf c m = none →
      loadDbi c snap txnID cutoff w m = .error .createUnsafe) ∧
    (∀ w', loadDbi c snap txnID cutoff w m = .ok w' →
      -- shadow mode: the application DBI
      (c.native = false → findDbi w.dbis m.name = none →
        (snap.fv ≥ 3 ∨ (ovrOf c m).isSome = true) ∧
        findDbi w'.dbis m.name = some { name := m.name, flags := createFlags c m, kvs := [] }) ∧
      -- shadow mode: the shadow DBI
      (c.native = false → findDbi w.dbis (shadowName m.name) = none →
        ∃ kvs, findDbi w'.dbis (shadowName m.name) =
          some { name := shadowName m.name,
                 flags := createFlags c m &&& Gen.allowedShadowDBIFlagsMask, kvs := kvs }) ∧
      -- native schema
      (c.native = true → findDbi w.dbis m.name = none →
        ∃ kvs, findDbi w'.dbis m.name =
          some { name := m.name, flags := createFlags c m, kvs := kvs }) ∧
      -- framing
      (∀ n d, findDbi w.dbis n = some d →
        (∃ kvs, findDbi w'.dbis n = some { d with kvs := kvs }) ∧
        (n ≠ targetName c m → findDbi w'.dbis n = some d))) := by
  constructor
  · intro hn hf hfv hov
    rw [loadDbi_eq, createDbis_eq]
    simp only [hp, hv, Bool.false_eq_true, if_false, Bool.true_eq_false]
    simp [hn, hf, hfv, hov]
  · intro w' h
    obtain ⟨w1, kvs, h1, hlook⟩ := loadDbi_lookup hp h
    have hl1 := createDbis_lookup h1
    refine ⟨?_, ?_, ?_, ?_⟩
    · intro hn hf
      constructor
      · rw [createDbis_eq] at h1
        simp only [hn, Bool.false_eq_true, if_false, hf, true_and] at h1
        split at h1
        · cases h1
        · rename_i hne
          cases hov : ovrOf c m with
          | some x => right; rfl
          | none =>
            left
            apply Nat.le_of_not_lt
            intro hlt; exact hne ⟨hlt, hov⟩
      · rw [hlook, hl1]
        have hne : ¬ m.name = shadowName m.name := fun h' => shadowName_ne m.name h'.symm
        simp only [hn, Bool.false_eq_true, if_false, hne, if_true, hf, Option.getD_none,
          Option.map_some, newDbi, targetName]
    · intro hn hf
      refine ⟨kvs, ?_⟩
      rw [hlook, hl1]
      simp only [hn, Bool.false_eq_true, if_false, if_true, hf, Option.getD_none, Option.map_some,
        newDbi, targetName, shadowCreateFlags]
    · intro hn hf
      refine ⟨kvs, ?_⟩
      rw [hlook, hl1]
      simp only [hn, if_true, hf, Option.getD_none, Option.map_some, newDbi, targetName]
    · intro n d hd
      have hdn := findDbi_name hd
      have hfind : findDbi w1.dbis n = some d := by
        rw [hl1]
        cases hn : c.native
        · simp only [Bool.false_eq_true, if_false]
          split
          · rename_i h'; subst h'; rw [hd]; rfl
          · split
            · rename_i h'; subst h'; rw [hd]; rfl
            · exact hd
        · simp only [if_true]
          split
          · rename_i h'; subst h'; rw [hd]; rfl
          · exact hd
      rw [hlook, hfind]
      subst hdn
      simp only [Option.map_some]
      constructor
      · by_cases ht : d.name = targetName c m
        · exact ⟨kvs, by simp [ht]⟩
        · exact ⟨d.kvs, by simp [ht]⟩
      · intro ht; simp [ht]

/-! ## 7. format version 1: an empty value is a deletion -/

/-- **Meaning of an empty value by format version.** With the iterator configuration `mc` of a
    load (`mc.fv` = the snapshot's format version): in version 1 (any version below 2) an entry
    with an empty value denotes a deletion — its normal form `Merge.norm` is deleted with no value,
    whatever its flags; from version 2 on the normal form is deleted exactly when the entry is
    flagged deleted, so an unflagged empty value is a live entry with the empty value. -/
theorem C18_v1_empty_is_deletion (mc : Merge.Cfg) (e : KV) :
    (mc.fv < 2 → e.val = [] → (norm mc e).del = true ∧ (norm mc e).val = []) ∧
    (2 ≤ mc.fv → (norm mc e).del = Header.isDeleted (maskedFlags e)) ∧
    (2 ≤ mc.fv → Header.isDeleted (maskedFlags e) = false →
      (norm mc e).del = false ∧ (norm mc e).val = e.val) ∧
    (mc.fv < 2 → e.val ≠ [] → (norm mc e).del = Header.isDeleted (maskedFlags e)) := by
  refine ⟨?_, ?_, ?_, ?_⟩
  · intro hfv hval
    simp [norm, entryDeleted, hval, hfv]
  · intro hfv
    have : ¬ mc.fv < 2 := by omega
    simp [norm, entryDeleted, this]
  · intro hfv hd
    have : ¬ mc.fv < 2 := by omega
    simp [norm, entryDeleted, this, hd]
  · intro hfv hval
    have : ¬ e.val.length = 0 := fun h => hval (List.length_eq_zero_iff.mp h)
    simp [norm, entryDeleted, this]

/-- **What the merge loop writes for a key that is not stored.** `loadDbi`'s merge is a left fold
    of `updStep` over the message's entries (`update_eq_fold`, `mergeDbi`); a step for an entry
    whose key is absent (and acceptable to LMDB), and which is not a deletion marker older than the
    cut-off, stores `addHeader mc e.val e.ts (maskedFlags e)` under the key and marks the
    transaction as having written; the logical content of the stored bytes is the entry's normal
    form. So (with `C18_v1_empty_is_deletion`) a version-1 entry with an empty value is stored as a
    deletion marker, a version-2+ entry with an empty value and no deleted flag as a live empty
    value. A stale deletion marker for an absent key writes nothing. -/
theorem C18_absent_key_written (ik : Bool) (mc : Merge.Cfg) (s : S) (e : KV)
    (hk : badKey e.key = false) (habs : get ik s.db e.key = none) (hb : Bounded mc e) :
    (¬ stale mc e →
      updStep ik (nativeIter mc) s e =
        .ok { db := put ik s.db e.key (addHeader mc e.val e.ts (maskedFlags e)), dirty := true } ∧
      decodeS (addHeader mc e.val e.ts (maskedFlags e)) = .ok (some (norm mc e)) ∧
      (mc.fv < 2 → e.val = [] →
        decodeS (addHeader mc e.val e.ts (maskedFlags e)) =
          .ok (some { ts := if e.ts = 0 then mc.defTs else e.ts, del := true, val := [] }))) ∧
    (stale mc e → updStep ik (nativeIter mc) s e = .ok s) := by
  constructor
  · intro hst
    refine ⟨updStep_absent ik mc s e hk habs hst, Merge.decodeS_addHeader mc e hb, ?_⟩
    intro hfv hval
    rw [Merge.decodeS_addHeader mc e hb]
    simp [norm, entryDeleted, hval, hfv]
  · intro hst
    have hk0 : e.key.length ≠ 0 := by
      intro h0; simp [badKey, h0] at hk
    exact updStep_absent_stale ik mc s e hk0 habs hst

/-- the merge phase of `loadDbi` is that fold, with the snapshot's format version in the iterator
    configuration, `defTs = 0`, the transaction's id, the cut-off and the padding option -/
theorem C18_merge_is_fold (c : Cfg) (snap : Snap) (txnID cutoff : Nat) (w w' : W) (m : DbiMsg)
    (h : mergeDbi c snap txnID cutoff w m = .ok w') :
    versionOk snap.fv snap.cv = true ∧
    ∃ td s, findDbi w.dbis (targetName c m) = some td ∧
      mapStratErr (m.entries.foldlM (updStep (isIntKey td.flags)
        (nativeIter { fv := snap.fv, defTs := 0, txn := txnID, cutoff := cutoff, pad := c.pad }))
        { db := td.kvs, dirty := w.dirty }) = .ok s ∧
      w' = { dbis := setKvs w.dbis (targetName c m) s.db, dirty := s.dirty } :=
  mergeDbi_ok h

/-! ## 8. well-formedness is preserved -/

/-- **`loadOnce` keeps the environment well-formed** (DBI names strictly increasing, the
    hypothesis of `C06_complete_wf`): DBIs are only ever inserted at their place in the root
    DBI's order. -/
theorem C18_wf_preserved (c : Cfg) (e : Env) (snap : Snap) (lastSynced now cutoff : Nat) (r : LoadRes)
    (hwf : SortedNames e.dbis) (h : loadOnce c e snap lastSynced now cutoff = .ok r) :
    SortedNames r.env.dbis := by
  rw [loadOnce_eq] at h
  split at h
  · cases h
  · rename_i w0 h0
    have hs0 : SortedNames w0.dbis := by
      unfold preLoad at h0
      split at h0
      · exact mainToShadow_sorted hwf h0
      · injection h0 with h0; subst h0; exact hwf
    split at h
    · cases h
    · rename_i w1 h1
      have hs1 := loadFold_sorted hs0 h1
      split at h
      · cases h
      · rename_i w2 h2
        injection h with h; subst h
        simp only [commit]
        unfold postLoad at h2
        split at h2
        · injection h2 with h2; subst h2; exact hs1
        · exact shadowToMain_sorted hs1 h2

/-! ## 9. concrete instances (the hypotheses above are satisfiable) -/

namespace Example

def errOf {α} : Except Err α → Option Err
  | .error e => some e
  | .ok _ => none

def cfgN : Cfg := { native := true, hack := false, pad := false, receiveOnly := false, override := [] }
def cfgS : Cfg := { native := false, hack := false, pad := false, receiveOnly := false, override := [] }

/-- a native environment with one application DBI holding key `[1]` (timestamp 5, value "A") -/
def env : Env :=
  { dbis := [{ name := strBytes "app", flags := 0,
               kvs := [([1], [0, 0, 0, 0, 0, 0, 0, 5] ++ [0, 0, 0, 0, 0, 0, 0, 3] ++ [0, 0, 0, 0, 0, 0, 0, 0] ++ [65])] }],
    lastTxn := 7 }

/-- a snapshot for `app` with an empty value for the absent key `[2]` at timestamp 9 -/
def snapV (fv cv : Nat) : Snap :=
  { fv := fv, cv := cv,
    dbs := [{ name := strBytes "app", flags := 0, transform := [],
              entries := [{ key := [2], val := [], ts := 9, flags := 0 }] }] }

example : SortedNames env.dbis := by decide +kernel

/-- version 1: the empty value is stored as a deletion marker (flag byte 1) in transaction 8 -/
example : ((loadOnce cfgN env (snapV 1 1) 7 0 0).toOption.map fun r => (r.txnID, r.env.dbis.map fun d => d.kvs)) =
    some (8, [[([1], [0, 0, 0, 0, 0, 0, 0, 5, 0, 0, 0, 0, 0, 0, 0, 3, 0, 0, 0, 0, 0, 0, 0, 0, 65]),
               ([2], [0, 0, 0, 0, 0, 0, 0, 9, 0, 0, 0, 0, 0, 0, 0, 8, 0, 1, 0, 0, 0, 0, 0, 0])]]) := by
  decide +kernel

/-- versions 2 and 3: the same entry is stored as a live empty value (flag byte 0) -/
example : ((loadOnce cfgN env (snapV 2 1) 7 0 0).toOption.map fun r => (r.txnID, r.env.dbis.map fun d => d.kvs)) =
    some (8, [[([1], [0, 0, 0, 0, 0, 0, 0, 5, 0, 0, 0, 0, 0, 0, 0, 3, 0, 0, 0, 0, 0, 0, 0, 0, 65]),
               ([2], [0, 0, 0, 0, 0, 0, 0, 9, 0, 0, 0, 0, 0, 0, 0, 8, 0, 0, 0, 0, 0, 0, 0, 0])]]) := by
  decide +kernel

/-- refused versions: format version 0, compat version 4, and (all naturals) a huge compat version;
    the caller keeps its environment -/
example : errOf (loadOnce cfgN env (snapV 0 0) 7 0 0) = some .version ∧
    errOf (loadOnce cfgN env (snapV 3 4) 7 0 0) = some .version ∧
    errOf (loadOnce cfgN env (snapV 4 4294967295) 7 0 0) = some .version ∧
    applyLoad env (loadOnce cfgN env (snapV 0 0) 7 0 0) = env := by decide +kernel

/-- a future format version with an acceptable compat version is accepted -/
example : errOf (loadOnce cfgN env (snapV 4 3) 7 0 0) = none := by decide +kernel

/-- only private messages, nonsensical versions -/
def snapPriv : Snap :=
  { fv := 0, cv := 99,
    dbs := [{ name := strBytes "_sync_x", flags := 4, transform := [1],
              entries := [{ key := [], val := [], ts := 0, flags := 0 }] }] }

/-- … is a no-op -/
example : (loadOnce cfgN env snapPriv 7 0 0).toOption =
    some { env := env, txnID := 7, localChanged := false } := by decide +kernel

def snapT (flags : Nat) (transform : Bytes) : Snap :=
  { fv := 3, cv := 1, dbs := [{ name := strBytes "app", flags := flags, transform := transform, entries := [] }] }

/-- a native schema refuses a transform; flags and transform must agree from version 3 on -/
example :
    errOf (loadOnce cfgN env (snapT 4 (strBytes "dupsort_hack_v1")) 7 0 0) = some .transform ∧
    errOf (loadOnce cfgS env (snapT 4 []) 7 0 0) = some .transform ∧
    errOf (loadOnce cfgS env (snapT 0 (strBytes "dupsort_hack_v1")) 7 0 0) = some .transform ∧
    errOf (loadOnce cfgS env (snapT 0 (strBytes "other")) 7 0 0) = some .transform := by
  decide +kernel

/-- a shadow-mode environment (plain application values) with a local change not yet mirrored -/
def envS : Env := { dbis := [{ name := strBytes "app", flags := 0, kvs := [([1], [65])] }], lastTxn := 7 }

def snapNew (fv : Nat) : Snap :=
  { fv := fv, cv := 1,
    dbs := [{ name := strBytes "new", flags := 65536 + 8 + 2, transform := [], entries := [] }] }

def cfgO : Cfg :=
  { native := false, hack := false, pad := false, receiveOnly := false, override := [(strBytes "new", 8)] }

/-- shadow mode, DBI `new` missing: a version-2 snapshot cannot create it, a version-3 snapshot
    creates it with its flags (mod 2^16) and the shadow DBI with the integer-key bit only; an
    override makes the version-2 snapshot acceptable -/
example :
    errOf (loadOnce cfgS envS (snapNew 2) 0 1000 0) = some .createUnsafe ∧
    ((loadOnce cfgS envS (snapNew 3) 0 1000 0).toOption.map fun r => r.env.dbis.map fun d => (d.name, d.flags)) =
      some [(strBytes "_sync_shadow_app", 0), (strBytes "_sync_shadow_new", 8), (strBytes "app", 0),
            (strBytes "new", 10)] ∧
    ((loadOnce cfgO envS (snapNew 2) 0 1000 0).toOption.map fun r => r.env.dbis.map fun d => (d.name, d.flags)) =
      some [(strBytes "_sync_shadow_app", 0), (strBytes "_sync_shadow_new", 8), (strBytes "app", 0),
            (strBytes "new", 8)] := by decide +kernel

def snapTwo : Snap :=
  { fv := 3, cv := 1, dbs := [
      { name := strBytes "app", flags := 0, transform := [],
        entries := [{ key := [2], val := [66], ts := 9, flags := 0 }] },
      { name := strBytes "zzz", flags := 0, transform := [],
        entries := [{ key := [], val := [66], ts := 9, flags := 0 }] }] }

/-- the first DBI merges, the second one fails (entry with an empty key): the whole load fails and
    the caller keeps its environment -/
example : errOf (loadOnce cfgN env snapTwo 7 0 0) = some .badKey ∧
    applyLoad env (loadOnce cfgN env snapTwo 7 0 0) = env := by decide +kernel

end Example

end Ls.C18
