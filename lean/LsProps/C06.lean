import LsLemmas.TxnSend
/-
  C06 — Every snapshot is the complete image of one committed LMDB transaction.
  Model: LsModel/Txn.lean (`sendOnce`, `readDBI`, `mainToShadow`, `commit`), LsModel/Header.lean.
  Helper lemmas: LsLemmas/TxnSend.lean, LsLemmas/TxnDbis.lean. Property theorems only.

  Vocabulary (definitions in LsLemmas/TxnSend.lean):
  * `dumpState c e now cutoff` — the state of `SendOnce`'s LMDB transaction when the DBIs are
    dumped: `⟨e.dbis, false⟩` for a native schema, the result of `mainToShadow` otherwise;
  * `appNames w` — the non-private names of `dbiNames w`, in that order;
  * `dumpName c name` — the DBI that is read for `name`: itself (native) or `shadowName name`;
  * `sendEnv c e w` — the environment after the transaction: `e` (native) or `commit e w`;
  * `EntryImage kv x` — `Header.parse kv.2 = .ok (h, app)` and
    `x = ⟨kv.1, app, h.ts, (Header.masked h.flags).toNat⟩`;
  * `Pointwise R l r` — `l` and `r` have the same length and are related position by position.

  Not covered here (DESIGN.md §7 C06 X): that the Go code runs the dump inside one LMDB
  transaction is what the model's `sendOnce : Env → …` *is*; snapshot naming / metadata
  (`C06_meta_name`) belongs to the Name model.
-/
namespace Ls.C06
open Ls Ls.Lmdb Ls.Txn
open Ls.Merge (KV)

/-! ## 1. completeness -/

/-- **Completeness and exactness of the snapshot.** If `sendOnce` succeeds (not receive-only),
    then the dump-time state `w` exists and the snapshot consists of exactly one DBI message per
    non-private DBI name of `w`, in `dbiNames` order, and nothing else. The message for `name`
    carries that name, the flags of the ORIGINAL DBI `name` (in shadow mode not those of the
    shadow DBI), the transform `dupsort_hack_v1` if and only if the original DBI has the
    duplicate-keys flag (else no transform), and as entries exactly the stored pairs of the dumped
    DBI (`name` itself for a native schema, `shadowName name` otherwise), in LMDB order, each as
    (key, application value, header timestamp, header flags ∧ sync mask) — whatever the entry is:
    live, empty-valued or a deletion marker. The format version written is
    `Gen.currentFormatVersion`, the compat version `Gen.writeCompatFormatVersion`. -/
theorem C06_complete (c : Cfg) (e : Env) (now cutoff : Nat) (r : SendRes)
    (h : sendOnce c e now cutoff = .ok r) (hro : c.receiveOnly = false) :
    ∃ w, dumpState c e now cutoff = .ok w ∧
      r.snap.fv = Gen.currentFormatVersion ∧ r.snap.cv = Gen.writeCompatFormatVersion ∧
      Pointwise (fun name m =>
          m.name = name ∧
          (∃ o, findDbi w.dbis name = some o ∧ m.flags = o.flags ∧
                (m.transform = strBytes Gen.transformDupSortHackV1 ↔ isDupSort o.flags = true) ∧
                (isDupSort o.flags = false → m.transform = [])) ∧
          (∃ d, findDbi w.dbis (dumpName c name) = some d ∧ Pointwise EntryImage d.kvs m.entries))
        (appNames w) r.snap.dbs := by
  obtain ⟨w, hw, _, _, hfv, hcv, hp⟩ := (sendOnce_ok_iff c e now cutoff r hro).mp h
  refine ⟨w, hw, hfv, hcv, hp.imp ?_⟩
  rintro name m ⟨hn, hd, ⟨o, ho, hf, ht, _⟩⟩
  refine ⟨hn, ⟨o, ho, hf, ?_, ?_⟩, hd⟩
  · rw [ht]
    cases hdup : isDupSort o.flags
    · simp only [Bool.false_eq_true, if_false, iff_false]
      exact fun h0 => dupsortTransform_ne_nil h0.symm
    · simp
  · intro hdup; rw [ht, hdup]; rfl

/-- **The application value is the stored value after the header and all extension blocks**,
    the timestamp the header's first eight bytes (big-endian), the flags the header's flag byte
    restricted to `Gen.flagSyncMask`: what `EntryImage` means in bytes. -/
theorem C06_entry_bytes (kv : Bytes × Bytes) (x : KV) (h : EntryImage kv x) :
    x.key = kv.1 ∧
    Gen.minHeaderSize + Gen.blockSize * Header.getNumExtra kv.2 ≤ kv.2.length ∧
    x.val = kv.2.drop (Gen.minHeaderSize + Gen.blockSize * Header.getNumExtra kv.2) ∧
    x.ts = beNat (slice kv.2 0 8) ∧
    x.flags = (kv.2.getD Gen.flagsOffset 0 &&& UInt8.ofNat Gen.flagSyncMask).toNat := by
  obtain ⟨hd, app, hp, rfl⟩ := h
  obtain ⟨h1, h2, h3, h4, h5⟩ := parse_app hp
  rw [h1] at h2 h3
  exact ⟨rfl, h2, h3, h4, by simp only [Header.masked, h5]⟩

/-- **Converse of `C06_complete`:** whenever the dump-time state exists and every stored value of
    every dumped DBI has a parsable header (and no duplicate-keys DBI lacks the `dupsort_hack`
    option), `sendOnce` succeeds with exactly that image — so `C06_complete` characterises the
    result completely, and the snapshot is uniquely determined by the dump-time state. -/
theorem C06_complete_conv (c : Cfg) (e : Env) (now cutoff : Nat) (w : W) (dbs : List DbiMsg)
    (hro : c.receiveOnly = false) (hw : dumpState c e now cutoff = .ok w)
    (himg : Pointwise (fun name m => DbiImage c w (dumpName c name) name m) (appNames w) dbs) :
    sendOnce c e now cutoff =
      .ok { env := sendEnv c e w, txnID := (sendEnv c e w).lastTxn,
            snap := { fv := Gen.currentFormatVersion, cv := Gen.writeCompatFormatVersion, dbs := dbs } } :=
  (sendOnce_ok_iff c e now cutoff _ hro).mpr ⟨w, hw, rfl, rfl, rfl, rfl, himg⟩

/-- **With a well-formed environment** (DBI names strictly increasing, as in LMDB's root DBI —
    `SortedNames`, decidable; preserved by application transactions, `mainToShadow`, `loadDbi`,
    `shadowToMain`: `appTxn_sorted`, `mainToShadow_sorted`, `loadFold_sorted`,
    `shadowToMain_sorted`) the messages correspond one-to-one, in order, to the non-private DBIs of
    the dump-time state themselves: message and DBI agree in name and flags, and the entries are
    the images of the pairs of the dumped DBI. -/
theorem C06_complete_wf (c : Cfg) (e : Env) (now cutoff : Nat) (r : SendRes)
    (h : sendOnce c e now cutoff = .ok r) (hro : c.receiveOnly = false) (hwf : SortedNames e.dbis) :
    ∃ w, dumpState c e now cutoff = .ok w ∧ SortedNames w.dbis ∧
      Pointwise (fun (o : Dbi) m =>
          m.name = o.name ∧ m.flags = o.flags ∧
          (m.transform = if isDupSort o.flags then strBytes Gen.transformDupSortHackV1 else []) ∧
          (∃ d, findDbi w.dbis (dumpName c o.name) = some d ∧ Pointwise EntryImage d.kvs m.entries) ∧
          (c.native = true → Pointwise EntryImage o.kvs m.entries))
        (w.dbis.filter (fun d => !isPrivate d.name)) r.snap.dbs := by
  obtain ⟨w, hw, _, _, _, _, hp⟩ := (sendOnce_ok_iff c e now cutoff r hro).mp h
  have hws : SortedNames w.dbis := by
    unfold dumpState at hw
    split at hw
    · injection hw with hw; subst hw; exact hwf
    · exact mainToShadow_sorted hwf hw
  refine ⟨w, hw, hws, ?_⟩
  have hnames : appNames w = (w.dbis.filter (fun d => !isPrivate d.name)).map (·.name) := by
    unfold appNames dbiNames
    rw [List.filter_map]; rfl
  rw [hnames, pointwise_map_left] at hp
  refine hp.imp_mem ?_
  rintro o ho m ⟨hn, ⟨d, hd, hents⟩, ⟨o', ho', hf, ht, _⟩⟩
  have hfo := findDbi_of_mem hws (List.mem_filter.mp ho).1
  rw [hfo] at ho'; injection ho' with ho'; subst ho'
  refine ⟨hn, hf, ht, ⟨d, hd, hents⟩, ?_⟩
  intro hnat
  simp only [dumpName, hnat, if_true] at hd
  rw [hfo] at hd; injection hd with hd; subst hd
  exact hents

/-! ## 2. nothing private -/

/-- **No private DBI in a snapshot.** No message carries a name with the private prefix
    `Gen.syncDBIPrefix` — in particular no shadow DBI (`isPrivate_shadowName`) appears under its
    own name. That no per-entry local transaction id is in the snapshot holds by the type: a
    snapshot entry `KV` has the fields key, val, ts, flags only, and `EntryImage` does not read the
    header's `txn` field. -/
theorem C06_no_private (c : Cfg) (e : Env) (now cutoff : Nat) (r : SendRes)
    (h : sendOnce c e now cutoff = .ok r) :
    (∀ m ∈ r.snap.dbs, isPrivate m.name = false) ∧ ∀ name, isPrivate (shadowName name) = true := by
  refine ⟨?_, isPrivate_shadowName⟩
  cases hro : c.receiveOnly with
  | true =>
    obtain ⟨_, _, _, _, hd⟩ := sendOnce_receiveOnly c e now cutoff r hro h
    rw [hd]; intro m hm; cases hm
  | false =>
    obtain ⟨w, _, _, _, _, _, hp⟩ := (sendOnce_ok_iff c e now cutoff r hro).mp h
    intro m hm
    obtain ⟨name, hname, himg⟩ := hp.exists_left m hm
    rw [himg.name]
    have := (List.mem_filter.mp hname).2
    simpa using this

/-- **The header's transaction id does not influence the snapshot:** two stored values that
    differ only in bytes 8..15 (the local transaction id) have the same image. -/
theorem C06_txn_field_ignored (k ts txn txn' rest : Bytes) (x : KV)
    (h1 : ts.length = 8) (h2 : txn.length = 8) (h3 : txn'.length = 8)
    (h : EntryImage (k, ts ++ txn ++ rest) x) : EntryImage (k, ts ++ txn' ++ rest) x :=
  entryImage_txn_irrelevant k ts txn txn' rest x h1 h2 h3 h

/-! ## 3. one single state -/

/-- **Native schema: the dump is read-only and a function of the environment alone.** The
    environment after `sendOnce` is the one before it, and the whole result (snapshot, id, or
    error) does not depend on the clock or the deletion cut-off. -/
theorem C06_single_state_native (c : Cfg) (e : Env) (now cutoff : Nat) (hn : c.native = true) :
    (∀ r, sendOnce c e now cutoff = .ok r → r.env = e) ∧
    (∀ now' cutoff', sendOnce c e now' cutoff' = sendOnce c e now cutoff) ∧
    (∀ e' : Env, e'.dbis = e.dbis →
      (sendOnce c e' now cutoff).map (·.snap) = (sendOnce c e now cutoff).map (·.snap)) := by
  refine ⟨?_, ?_, ?_⟩
  · intro r h
    rw [sendOnce_eq] at h
    simp only [dumpState, hn, if_true, sendEnv] at h
    split at h
    · cases h
    · injection h with h; subst h; rfl
  · intro now' cutoff'
    rw [sendOnce_eq, sendOnce_eq]
    simp only [dumpState, hn, if_true]
  · intro e' he
    rw [sendOnce_eq, sendOnce_eq]
    simp only [dumpState, hn, if_true, he, sendEnv]
    split <;> rfl

/-- **Shadow mode: snapshot and committed state are the same state.** The environment after
    `sendOnce` is the commit of the very transaction state `w` (after `mainToShadow`) whose image
    the snapshot is (`C06_complete` speaks about the same `w`: `dumpState` is a function). -/
theorem C06_single_state (c : Cfg) (e : Env) (now cutoff : Nat) (r : SendRes)
    (h : sendOnce c e now cutoff = .ok r) :
    ∃ w, dumpState c e now cutoff = .ok w ∧
      (c.native = true → w = { dbis := e.dbis, dirty := false } ∧ r.env = e) ∧
      (c.native = false →
        mainToShadow c { dbis := e.dbis, dirty := false } (e.lastTxn + 1) now cutoff = .ok w ∧
        r.env = commit e w) := by
  have key : ∃ w, dumpState c e now cutoff = .ok w ∧ r.env = sendEnv c e w := by
    cases hro : c.receiveOnly with
    | true =>
      obtain ⟨w, hw, he, _, _⟩ := sendOnce_receiveOnly c e now cutoff r hro h
      exact ⟨w, hw, he⟩
    | false =>
      obtain ⟨w, hw, he, _⟩ := (sendOnce_ok_iff c e now cutoff r hro).mp h
      exact ⟨w, hw, he⟩
  obtain ⟨w, hw, he⟩ := key
  refine ⟨w, hw, ?_, ?_⟩
  · intro hn
    simp only [dumpState, hn, if_true] at hw
    injection hw with hw
    exact ⟨hw.symm, by rw [he, sendEnv, if_pos hn]⟩
  · intro hn
    simp only [dumpState, hn, Bool.false_eq_true, if_false] at hw
    exact ⟨hw, by rw [he, sendEnv, hn]; rfl⟩

/-! ## 4. the transaction id -/

/-- **The reported transaction id is LMDB's last transaction id after the transaction**, in both
    modes: for a native schema the id of the state that was read; in shadow mode the id of the
    write transaction if it changed anything, else (LMDB does not record it) the previous one. -/
theorem C06_txnid (c : Cfg) (e : Env) (now cutoff : Nat) (r : SendRes)
    (h : sendOnce c e now cutoff = .ok r) : r.txnID = r.env.lastTxn := by
  cases hro : c.receiveOnly with
  | true =>
    obtain ⟨w, _, he, ht, _⟩ := sendOnce_receiveOnly c e now cutoff r hro h
    rw [ht, he]
  | false =>
    obtain ⟨w, _, he, ht, _⟩ := (sendOnce_ok_iff c e now cutoff r hro).mp h
    rw [ht, he]

/-! ## 5. receive-only -/

/-- **Receive-only instances dump nothing:** the snapshot has no DBI message (nothing is stored),
    while the transaction (including `mainToShadow` in shadow mode) still takes place. -/
theorem C06_receive_only (c : Cfg) (e : Env) (now cutoff : Nat) (r : SendRes)
    (h : sendOnce c e now cutoff = .ok r) (hro : c.receiveOnly = true) :
    r.snap.dbs = [] ∧ ∃ w, dumpState c e now cutoff = .ok w ∧ r.env = sendEnv c e w := by
  obtain ⟨w, hw, he, _, hd⟩ := sendOnce_receiveOnly c e now cutoff r hro h
  exact ⟨hd, w, hw, he⟩

/-- **`sendOnce` keeps the environment well-formed** (the hypothesis of `C06_complete_wf`), as do
    application transactions (`appTxn_sorted`) and `loadOnce` (`C18_wf_preserved`). -/
theorem C06_wf_preserved (c : Cfg) (e : Env) (now cutoff : Nat) (r : SendRes)
    (hwf : SortedNames e.dbis) (h : sendOnce c e now cutoff = .ok r) : SortedNames r.env.dbis := by
  obtain ⟨w, hw, h1, h2⟩ := C06_single_state c e now cutoff r h
  cases hn : c.native with
  | true => rw [(h1 hn).2]; exact hwf
  | false =>
    obtain ⟨hm, he⟩ := h2 hn
    rw [he]
    exact mainToShadow_sorted hwf hm

/-- a committed application transaction keeps the environment well-formed -/
theorem C06_wf_app (e e' : Env) (ops : List AppOp) (hwf : SortedNames e.dbis)
    (h : appTxn e ops = some e') : SortedNames e'.dbis := appTxn_sorted hwf h

/-! ## 6. a concrete instance -/

namespace Example

/-- a 24-byte header (plus the announcement of `n` extension blocks): timestamp `ts`, local
    transaction id 42, flags `fl` -/
def hdr (ts fl n : UInt8) : Bytes :=
  [0, 0, 0, 0, 0, 0, 0, ts] ++ [0, 0, 0, 0, 0, 0, 0, 42] ++ [0, fl, 0, 0, 0, 0, 0, n]

/-- a native-schema environment with a private DBI (whose content has no header at all) and an
    application DBI holding a live entry with one extension block, a live entry with an empty
    value, a deletion marker, and an entry with a flag bit outside the sync mask -/
def env : Env :=
  { dbis := [
      { name := strBytes "_sync_meta", flags := 0, kvs := [([1], [9, 9, 9])] },
      { name := strBytes "app", flags := 0, kvs := [
          ([1], hdr 5 0 1 ++ [1, 2, 3, 4, 5, 6, 7, 8] ++ [65, 66]),
          ([2], hdr 6 0 0),
          ([3], hdr 7 1 0),
          ([4], hdr 8 3 0 ++ [67]) ] } ],
    lastTxn := 17 }

def cfg : Cfg := { native := true, hack := false, pad := false, receiveOnly := false, override := [] }

example : SortedNames env.dbis := by decide +kernel

/-- the private DBI is absent, the extension block and the transaction id 42 are gone, the empty
    value and the deletion marker are present, the flags are masked; the LMDB is unchanged -/
example : (sendOnce cfg env 0 0).toOption = some
    { env := env, txnID := 17,
      snap := { fv := 3, cv := 1, dbs := [
        { name := strBytes "app", flags := 0, transform := [], entries := [
            { key := [1], val := [65, 66], ts := 5, flags := 0 },
            { key := [2], val := [], ts := 6, flags := 0 },
            { key := [3], val := [], ts := 7, flags := 1 },
            { key := [4], val := [67], ts := 8, flags := 1 } ] } ] } } := by decide +kernel

/-- shadow mode on a plain application DBI (integer-key flag 8 plus an application flag 0x10000
    that a shadow DBI must not get): the message carries the ORIGINAL flags, the entries are those
    of the shadow DBI written by `mainToShadow` in the same transaction (timestamp = `now`), and
    the reported id is the id of that write transaction -/
def envS : Env :=
  { dbis := [{ name := strBytes "app", flags := 65544, kvs := [([1, 0, 0, 0], [65]), ([2, 0, 0, 0], [66, 67])] }],
    lastTxn := 17 }

def cfgS : Cfg := { native := false, hack := false, pad := false, receiveOnly := false, override := [] }

example :
    ((sendOnce cfgS envS 1000 0).toOption.map fun r => (r.txnID, r.env.lastTxn)) = some (18, 18) ∧
    ((sendOnce cfgS envS 1000 0).toOption.map fun r => r.env.dbis.map (fun d => (d.name, d.flags))) =
      some [(strBytes "_sync_shadow_app", 8), (strBytes "app", 65544)] ∧
    ((sendOnce cfgS envS 1000 0).toOption.map (·.snap.dbs)) = some
     [{ name := strBytes "app", flags := 65544, transform := [], entries := [
          { key := [1, 0, 0, 0], val := [65], ts := 1000, flags := 0 },
          { key := [2, 0, 0, 0], val := [66, 67], ts := 1000, flags := 0 } ] }] := by decide +kernel

/-- receive-only: nothing to store -/
example : ((sendOnce { cfg with receiveOnly := true } env 0 0).toOption.map (·.snap.dbs)) = some [] := by
  decide +kernel

end Example

end Ls.C06
