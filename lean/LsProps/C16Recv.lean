import LsLemmas.RecvMisc
/-
  C16 (receiver part) — every instance's newest snapshot is eventually delivered, within memory
  limits. Stated on the small-step receiver model (LsModel/Receiver.lean): any number of
  instances, any interleaving of listings (failing or not), downloader steps (loads that succeed,
  fail, or find the blob gone; corrupt blobs), consumer steps (`Next`, `Close`) and bucket
  changes (`put`, `rm`), for all limits ≥ 1.

  Inductive invariants: `Ls.Recv.Inv` (tokens), `InvL` (delivered names were listed as newest),
  `InvK` (corrupt names), `InvF` (immutable blobs), `InvM` (notification bookkeeping), `InvD`
  (meaning of `last`); termination measure `Ls.Recv.mu`.

  (The sync-loop part of C16, run-once, is in LsProps/C16.lean.)
-/
namespace Ls.C16
open Ls Ls.Recv

variable {ι : Type} [DecidableEq ι]

/-! ### C16_tokens -/

/-- **Token conservation.** In every reachable state, for both limits, free + held = limit:
    the download tokens are held exactly by the downloaders between `Acquire` and the release
    (`loading`, `wantDc`, `decoding`); the decompress tokens by the downloaders in `LoadData`
    (`decoding`), by the entries of `snapshotsByInstance` (`pending`) and by the update the sync
    loop has not closed yet. Hence at no time more than `dl` downloaded blobs and more than `dc`
    decoded snapshots are in memory. -/
theorem C16_tokens {own : ι} {dl dc : Nat} {s : St ι} (h : RReach own dl dc s) :
    s.dlFree + dlHeld s = dl ∧
    s.dcFree + dcHeld s + s.pending.length + held s.holding = dc ∧
    dlHeld s ≤ dl ∧ dcHeld s + s.pending.length + held s.holding ≤ dc := by
  obtain ⟨hi, _, _, _, _, e2, e3⟩ := rreach_inv h
  have a := hi.tokDl
  have b := hi.tokDc
  rw [e2] at a; rw [e3] at b
  exact ⟨a, b, by omega, by omega⟩

/-- … and the downloader table has one entry per instance (so the counts count instances). -/
theorem C16_tokens_one_downloader_per_instance {own : ι} {dl dc : Nat} {s : St ι} (h : RReach own dl dc s) :
    (s.dls.map Prod.fst).Nodup := (rreach_inv h).1.nodup

/-! ### C16_no_leak -/

/-- **Nothing leaks.** When every downloader is parked and the sync loop holds nothing, all
    download tokens are free and the only decompress tokens in use are those of the pending
    snapshots. -/
theorem C16_no_leak {own : ι} {dl dc : Nat} {s : St ι} (h : RReach own dl dc s)
    (hidle : ∀ e ∈ s.dls, e.2.pc = .idle) (hh : s.holding = none) :
    s.dlFree = dl ∧ s.dcFree + s.pending.length = dc := by
  obtain ⟨a, b, _, _⟩ := C16_tokens h
  have z1 : dlHeld s = 0 := AL.count_zero (fun e he => by rw [hidle e he]; rfl)
  have z2 : dcHeld s = 0 := AL.count_zero (fun e he => by rw [hidle e he]; rfl)
  rw [z1] at a; rw [z2, hh] at b
  simp [held] at a b
  exact ⟨a, b⟩

/-- **An overwritten pending snapshot's token is released.** When a downloader inserts a decoded
    snapshot over a pending one of the same instance, the decompress token of the overwritten one
    goes back to the pool (and the download token too): the pending map keeps its size, both free
    counters go up by one. -/
theorem C16_no_leak_overwrite {s s' : St ι} {d : ι} {x : Dl} {t t0 : Nat}
    (hx : getDl s d = some x) (hpc : x.pc = .decoding t false) (hp : AL.get s.pending d = some t0)
    (h : step s (.decode d) = some s') :
    s'.dcFree = s.dcFree + 1 ∧ s'.dlFree = s.dlFree + 1 ∧ s'.pending.length = s.pending.length ∧
    AL.get s'.pending d = some t ∧ ∀ d', d' ≠ d → AL.get s'.pending d' = AL.get s.pending d' := by
  obtain ⟨y, t', bad, hy, hpc', hc⟩ := step_decode h
  rw [hx] at hy; cases hy
  rw [hpc] at hpc'; cases hpc'
  rcases hc with ⟨hb, _⟩ | ⟨_, rfl⟩
  · cases hb
  · refine ⟨by simp [hp], rfl, ?_, AL.get_set_self _ _ _, fun d' hd' => AL.get_set_ne _ _ hd'⟩
    show (AL.set s.pending d t).length = _
    rw [AL.length_set, hp]; rfl

/-- **Every error path releases.** A failed load, a vanished blob and a corrupt blob leave the
    downloader in its retry sleep holding no token. -/
theorem C16_no_leak_error_paths {s s' : St ι} {d : ι} :
    (∀ r, r ≠ LoadRes.ok → step s (.load d r) = some s' →
      s'.dlFree = s.dlFree + 1 ∧ s'.dcFree = s.dcFree ∧ ∃ y, getDl s' d = some y ∧ y.pc = .backoff) ∧
    (∀ x t, getDl s d = some x → x.pc = .decoding t true → step s (.decode d) = some s' →
      s'.dlFree = s.dlFree + 1 ∧ s'.dcFree = s.dcFree + 1 ∧ s'.pending = s.pending ∧
      ∃ y, getDl s' d = some y ∧ y.pc = .backoff) := by
  constructor
  · intro r hr h
    obtain ⟨x, t, hx, hpc, hc⟩ := step_load h
    rcases hc with ⟨e, _⟩ | ⟨_, rfl⟩
    · exact absurd e hr
    · exact ⟨rfl, rfl, { x with pc := .backoff },
        (getDl_with (s2 := setDl s d { x with pc := .backoff }) rfl d).trans (by rw [getDl_setDl]; simp), rfl⟩
  · intro x t hx hpc h
    obtain ⟨y, t', bad, hy, hpc', hc⟩ := step_decode h
    rw [hx] at hy; cases hy
    rw [hpc] at hpc'; cases hpc'
    rcases hc with ⟨_, rfl⟩ | ⟨hb, _⟩
    · exact ⟨rfl, rfl, rfl, { x with last := some t, pc := .backoff },
        (getDl_with (s2 := setDl s d { x with last := some t, pc := .backoff }) rfl d).trans (by rw [getDl_setDl]; simp), rfl⟩
    · cases hb

/-! ### C16_delivers_newest -/

/-- **A successful listing computes the newest non-ignored name per instance**, with every name
    marked corrupt so far ignored; the listing is recorded in `hist`. -/
theorem C16_listing_newest (inc : Bool) (s : St ι) (d : ι) (t : Nat) :
    (AL.get (runOnce inc s).lastSeen d = some t ↔ NewestIn s.bucket (ignoredNow s) d t) ∧
    (runOnce inc s).hist = (s.bucket, ignoredNow s) :: s.hist ∧
    (∀ n, n ∈ ignoredNow s ↔ n ∈ s.ignored ∨ n ∈ s.corrupt) := by
  refine ⟨?_, by rw [runOnce_frame], fun n => mem_ignoredNow⟩
  rw [runOnce_frame]; exact seenOf_some

/-- **What `Next` returns was the newest listed name.** In every reachable state, every pending
    snapshot, the snapshot the sync loop holds, and every snapshot ever returned by `Next` was, at
    some successful listing (the one its downloader read), a blob of the bucket, not ignored,
    with the largest timestamp among the non-ignored blobs of its instance. -/
theorem C16_delivers_newest {own : ι} {dl dc : Nat} {s : St ι} (h : RReach own dl dc s) (n : ι × Nat)
    (hn : n ∈ s.pending ∨ s.holding = some n ∨ n ∈ s.delivered) :
    ∃ e ∈ s.hist, NewestIn e.1 e.2 n.1 n.2 := by
  obtain ⟨_, hl, _⟩ := rreach_inv h
  rcases hn with hn | hn | hn
  · exact hl.pend n hn
  · exact hl.hold n hn
  · exact hl.deliv n hn

/-- **Corrupt names are never loaded again.** Once a name is marked corrupt, in no later state
    does the downloader of its instance work on it, it is never `lastSeen` once a listing has
    succeeded (it is ignored from then on), and after every successful listing every corrupt name
    is ignored. -/
theorem C16_corrupt_never_reloaded {own : ι} {dl dc : Nat} {s s' : St ι} (h : RReach own dl dc s)
    {d : ι} {t : Nat} (hc : (d, t) ∈ s.corrupt) (steps : List (Step ι)) (hr : run s steps = some s') :
    (∀ x, getDl s' d = some x → x.pc.ts? ≠ some t) ∧
    ((d, t) ∈ s'.ignored → AL.get s'.lastSeen d ≠ some t) ∧
    (∀ inc, (d, t) ∈ (runOnce inc s').ignored) := by
  obtain ⟨steps0, hr0⟩ := h
  have hreach : RReach own dl dc s' := ⟨steps0 ++ steps, by rw [run_append, hr0]; exact hr⟩
  obtain ⟨_, _, hk, _⟩ := rreach_inv hreach
  have hc' := (marks_mono_run steps hr).1 _ hc
  refine ⟨fun x hx => hk.k3 d t x hc' hx, fun hi => hk.k1 d t hi, fun inc => ?_⟩
  rw [runOnce_frame]
  exact mem_ignoredNow.mpr (Or.inr hc')

/-- **A name is never inserted into the pending map while marked corrupt.** -/
theorem C16_corrupt_never_inserted {own : ι} {dl dc : Nat} {s s' : St ι} (h : RReach own dl dc s)
    {d : ι} {x : Dl} {t : Nat} {bad : Bool} (hx : getDl s d = some x) (hpc : x.pc = .decoding t bad)
    (_ : step s (.decode d) = some s') : (d, t) ∉ s.corrupt := by
  obtain ⟨_, _, hk, _⟩ := rreach_inv h
  exact fun hc => hk.k3 d t x hc hx (by rw [hpc]; rfl)

/-- **With immutable blobs, corrupt names are never pending, held or delivered.** If every blob
    ever stored under a name decodes the same way (`f`), then in every reachable state no name is
    both marked corrupt and pending / held / delivered. -/
theorem C16_corrupt_never_pending {f : ι × Nat → Bool} {own : ι} {dl dc : Nat} {s : St ι}
    (h : RReachE (PutsAgree f) own dl dc s) (n : ι × Nat) (hc : n ∈ s.corrupt) :
    n ∉ s.pending ∧ s.holding ≠ some n ∧ n ∉ s.delivered := by
  obtain ⟨steps, hok, hr⟩ := h
  have hf := run_induct (InvF f) (PutsAgree f) (fun _ _ _ hp ho hs => invF_step hp ho hs) steps _ _
    (invF_init f own dl dc) hok hr
  have ht := hf.cor n hc
  refine ⟨fun hm => ?_, fun hm => ?_, fun hm => ?_⟩
  · rw [hf.pend n hm] at ht; cases ht
  · rw [hf.hold n hm] at ht; cases ht
  · rw [hf.deliv n hm] at ht; cases ht

/-! ### C16_corrupt_isolated -/

/-- **A corrupt blob touches nothing else.** The step in which downloader `a` finds its blob
    corrupt changes no other downloader, no pending entry (not even `a`'s), not what the sync loop
    holds, not `lastSeen`; it releases both tokens and marks exactly that name. -/
theorem C16_corrupt_isolated {s s' : St ι} {a : ι} {x : Dl} {t : Nat}
    (hx : getDl s a = some x) (hpc : x.pc = .decoding t true) (h : step s (.decode a) = some s') :
    (∀ d, d ≠ a → getDl s' d = getDl s d) ∧ s'.pending = s.pending ∧ s'.holding = s.holding ∧
    s'.lastSeen = s.lastSeen ∧ s'.delivered = s.delivered ∧
    (∀ n, n ∈ s'.corrupt ↔ n ∈ s.corrupt ∨ n = (a, t)) ∧
    s'.dlFree = s.dlFree + 1 ∧ s'.dcFree = s.dcFree + 1 := by
  obtain ⟨y, t', bad, hy, hpc', hc⟩ := step_decode h
  rw [hx] at hy; cases hy
  rw [hpc] at hpc'; cases hpc'
  rcases hc with ⟨_, rfl⟩ | ⟨hb, _⟩
  · refine ⟨?_, rfl, rfl, rfl, rfl, fun n => mem_insertName, rfl, rfl⟩
    intro d hd
    exact (getDl_with (s2 := setDl s a { x with last := some t, pc := .backoff }) rfl d).trans
      (by rw [getDl_setDl]; simp [hd])
  · cases hb

/-- **After the next listing the previous snapshot becomes `lastSeen`.** A listing of a state in
    which `(a, t)` is marked corrupt yields for `a` the newest blob of `a` in the bucket that is
    neither ignored nor corrupt — never `(a, t)` —, and for every other instance exactly what it
    would yield had `(a, t)` not been marked. -/
theorem C16_corrupt_isolated_listing (inc : Bool) (s : St ι) {a : ι} {t : Nat} (hc : (a, t) ∈ s.corrupt) :
    (∀ t', AL.get (runOnce inc s).lastSeen a = some t' ↔ NewestIn s.bucket (ignoredNow s) a t') ∧
    AL.get (runOnce inc s).lastSeen a ≠ some t ∧
    (∀ (s0 : St ι) (d : ι), d ≠ a → s0.bucket = s.bucket → s0.ignored = s.ignored →
      (∀ n, n ∈ s.corrupt ↔ n ∈ s0.corrupt ∨ n = (a, t)) →
      AL.get (runOnce inc s).lastSeen d = AL.get (runOnce inc s0).lastSeen d) := by
  refine ⟨fun t' => (C16_listing_newest inc s a t').1, ?_, ?_⟩
  · intro h
    exact ((C16_listing_newest inc s a t).1.mp h).2.1 (mem_ignoredNow.mpr (Or.inr hc))
  · intro s0 d hd hb hig hcor
    have e1 : (runOnce inc s).lastSeen = seenOf s := by rw [runOnce_frame]
    have e2 : (runOnce inc s0).lastSeen = seenOf s0 := by rw [runOnce_frame]
    rw [e1, e2]
    apply seenOf_congr d hb.symm
    intro t'
    rw [mem_ignoredNow, mem_ignoredNow, hig, hcor]
    constructor
    · rintro (h | h | h)
      · exact Or.inl h
      · exact Or.inr h
      · cases h; exact absurd rfl hd
    · rintro (h | h)
      · exact Or.inl h
      · exact Or.inr (Or.inl h)

/-! ### C16_progress -/

/-- **Deadlock freedom.** In every reachable state with limits ≥ 1: if some downloader is busy
    (signalled, working, waiting for a token or in its retry sleep), or a snapshot is pending, or
    the sync loop holds one, then a fault-free step of a downloader (`wake`, `check`, `acqDl`,
    `load` with the storage's answer, `acqDc`, `decode`, `retry`) or of the consumer (`next`,
    `close`) is enabled. No reachable state has everybody waiting for a token forever: a
    downloader holding a download token while waiting for a decompress token is not a deadlock,
    because every decompress token is held by something that can move. -/
theorem C16_progress_deadlock_free {own : ι} {dl dc : Nat} {s : St ι} (h : RReach own dl dc s)
    (h1 : 1 ≤ dl) (h2 : 1 ≤ dc)
    (hw : (∃ d x, getDl s d = some x ∧ x.busy = true) ∨ s.pending ≠ [] ∨ s.holding ≠ none) :
    ∃ x : Step ι, x.fair = true ∧ (step s x).isSome := by
  obtain ⟨hi, _, _, _, _, e2, e3⟩ := rreach_inv h
  exact progress_enabled hi (by rw [e2]; exact h1) (by rw [e3]; exact h2) hw

/-- **An undelivered newest snapshot keeps the system moving.** Assume no `put` re-creates the
    name last notified for its instance (`NoResurrect`). In every reachable state, if the
    `lastSeen` name of a foreign instance differs from what its downloader processed last, that
    downloader exists and is busy, and a fault-free downloader or consumer step is enabled. -/
theorem C16_progress_enabled {own : ι} {dl dc : Nat} {s : St ι} (h : RReachE NoResurrect own dl dc s)
    (h1 : 1 ≤ dl) (h2 : 1 ≤ dc) {d : ι} {t : Nat} (hd : d ≠ own) (hseen : AL.get s.lastSeen d = some t)
    (hlast : ∀ x, getDl s d = some x → x.last ≠ some t) :
    (∃ x, getDl s d = some x ∧ x.busy = true) ∧ ∃ x : Step ι, x.fair = true ∧ (step s x).isSome := by
  obtain ⟨steps, hok, hr⟩ := h
  have hm := run_induct InvM NoResurrect (fun _ _ _ hp ho hs => invM_step hp ho hs) steps _ _
    (invM_init own dl dc) hok hr
  have hown : s.own = own := (consts_run steps hr).1
  obtain ⟨x, hx, hl⟩ := hm.m d t (by rw [hown]; exact hd) hseen
  have hb : x.busy = true := by
    rcases hl with hl | hl
    · exact absurd hl (hlast x hx)
    · exact hl
  exact ⟨⟨x, hx, hb⟩, C16_progress_deadlock_free ⟨steps, hr⟩ h1 h2 (Or.inl ⟨d, x, hx, hb⟩)⟩

/-- **Fault-free runs end.** Once `lastSeen` only names blobs of the bucket (true right after a
    successful listing), every fault-free downloader or consumer step decreases the measure
    `mu`; so there is no infinite fault-free run between listings, and by deadlock freedom some
    finite fault-free run leads to a state at rest (all downloaders parked, nothing pending,
    nothing held). -/
theorem C16_progress_to_rest {own : ι} {dl dc : Nat} {s : St ι} (h : RReach own dl dc s)
    (h1 : 1 ≤ dl) (h2 : 1 ≤ dc) :
    (∀ x s', SeenInBucket s → x.fair = true → step s x = some s' → mu s' < mu s) ∧
    ∃ steps s', (∀ x ∈ steps, x.quiet = true) ∧ run s steps = some s' ∧ AtRest s' ∧ s'.bucket = s.bucket := by
  obtain ⟨hi, _, hk, _, _, e2, e3⟩ := rreach_inv h
  refine ⟨fun x s' hsb hf hs => mu_decreases hk hsb hf hs, ?_⟩
  let s1 := runOnce false s
  have hs1 : step s (.runOnce false true) = some s1 := rfl
  have hi1 := inv_step hi hs1
  have hk1 := invK_step hk hs1
  obtain ⟨_, l1, l2⟩ := step_own hs1
  obtain ⟨steps, s2, hfs, hrun, hrest⟩ := reach_rest (mu s1) s1 (Nat.le_refl _) hi1 hk1
    (seenInBucket_runOnce false s) (by rw [l1, e2]; exact h1) (by rw [l2, e3]; exact h2)
  refine ⟨.runOnce false true :: steps, s2, ?_, by simp only [run, hs1]; exact hrun, hrest, ?_⟩
  · intro x hx
    rcases List.mem_cons.mp hx with e | hm
    · subst e; rfl
    · exact quiet_of_fair (hfs x hm)
  · have := (run_fair_frame steps s1 s2 hfs hrun).1
    rw [this]; show (runOnce false s).bucket = _; rw [runOnce_frame]

/-- **Possibility of delivery.** Assume blobs are immutable (`PutsAgree f`) and no `put`
    re-creates the name last notified for its instance (`NoResurrect`). From every reachable
    state, with limits ≥ 1, there is a finite continuation made only of successful listings and
    fault-free downloader and consumer steps — the bucket does not change — after which, for
    every foreign instance that has a decodable blob in the bucket, the newest decodable one has
    been returned by `Next`; moreover the final state is settled: at rest (so by `C16_no_leak`
    all tokens are free), `lastSeen` is the listing of the bucket, every corrupt name ignored. -/
theorem C16_progress_delivery {f : ι × Nat → Bool} {own : ι} {dl dc : Nat} {s : St ι}
    (h : RReachE (EnvOk f) own dl dc s) (h1 : 1 ≤ dl) (h2 : 1 ≤ dc) :
    ∃ steps s', (∀ x ∈ steps, x.quiet = true) ∧ run s steps = some s' ∧ s'.bucket = s.bucket ∧ Settled s' ∧
      ∀ d g, d ≠ own → NewestGood s.bucket d g → (d, g) ∈ s'.delivered := by
  obtain ⟨steps0, hok, hr⟩ := h
  have hi : AllInv f s := allInv_run steps0 (allInv_init f own dl dc h1 h2) hok hr
  have hown : s.own = own := (consts_run steps0 hr).1
  -- a listing, then to rest
  let s1 := runOnce false s
  have hs1 : step s (.runOnce false true) = some s1 := rfl
  have hi1 : AllInv f s1 := allInv_step hi (envOk_of_quiet rfl) hs1
  obtain ⟨stepsA, s2, hfs, hrunA, hrest⟩ := reach_rest (mu s1) s1 (Nat.le_refl _) hi1.tok hi1.cor
    (seenInBucket_runOnce false s) hi1.lim1 hi1.lim2
  have hqA : ∀ x ∈ stepsA, x.quiet = true := fun x hx => quiet_of_fair (hfs x hx)
  have hi2 : AllInv f s2 := allInv_run stepsA hi1 (allOk_of_quiet stepsA s1 hqA) hrunA
  have hb2 : s2.bucket = s.bucket := by
    rw [(run_fair_frame stepsA s1 s2 hfs hrunA).1]; show (runOnce false s).bucket = _; rw [runOnce_frame]
  -- rounds until settled
  obtain ⟨stepsB, s3, hqB, hrunB, hset, hi3, hb3⟩ := settle (f := f) _ s2 (Nat.le_refl _) hi2 hrest
  have hown3 : s3.own = own := by
    have a := (consts_run stepsB hrunB).1
    have b := (consts_run stepsA hrunA).1
    have c := (step_own hs1).1
    rw [a, b, c, hown]
  refine ⟨.runOnce false true :: (stepsA ++ stepsB), s3, ?_, ?_, hb3.trans hb2, hset, ?_⟩
  · intro x hx
    rcases List.mem_cons.mp hx with e | hm
    · subst e; rfl
    · rcases List.mem_append.mp hm with h | h
      · exact hqA x h
      · exact hqB x h
  · simp only [run, hs1]
    rw [run_append, hrunA]; exact hrunB
  · intro d g hd hg
    apply settled_newest_good hi3 hset (by rw [hown3]; exact hd)
    rw [hb3, hb2]; exact hg

/-- The driver's big step is a run of fault-free downloader steps: every state the driver shows
    is reachable in the small-step model. -/
theorem C16_quiesce_is_run {own : ι} {dl dc : Nat} {s : St ι} (h : RReach own dl dc s) (order : List ι) :
    RReach own dl dc (quiesceOrd order s).2 ∧ ∀ x ∈ (quiesceOrd order s).1, x.fair = true := by
  obtain ⟨steps, hr⟩ := h
  obtain ⟨a, b⟩ := quiesceOrd_run order s
  exact ⟨⟨steps ++ (quiesceOrd order s).1, by rw [run_append, hr]; exact b⟩, a⟩

/-! ### concrete scenarios (instances are numbers; own = 0) -/

set_option synthInstance.maxSize 1024

namespace Ex
def a1 : Option (St Nat) :=
  (run (init 0 1 1) [.put ⟨2, 3, false⟩, .put ⟨1, 5, false⟩, .runOnce false true]).map quiesce
def a2 : Option (St Nat) := a1.bind (fun s => (run s [.next 1, .close]).map quiesce)
def a3 : Option (St Nat) := a2.bind (fun s => run s [.next 2, .close])

def b1 : Option (St Nat) :=
  (run (init 0 2 2) [.put ⟨1, 5, false⟩, .put ⟨1, 6, true⟩, .runOnce false true]).map quiesce
def b2 : Option (St Nat) := b1.bind (fun s => (run s [.runOnce false true]).map quiesce)

def c1 : Option (St Nat) := (run (init 0 2 2) [.put ⟨1, 5, false⟩, .runOnce false true]).map quiesce
def c2 : Option (St Nat) := c1.bind (fun s => (run s [.put ⟨1, 6, false⟩, .runOnce false true]).map quiesce)

def orphan : Option (St Nat) :=
  run (init 0 1 1) [.put ⟨1, 5, false⟩, .runOnce false true, .wake 1, .check 1, .acqDl 1,
                    .rm 1 5, .load 1 .notFound, .runOnce false true, .retry 1, .check 1,
                    .put ⟨1, 5, false⟩, .runOnce false true]
end Ex

/-- two foreign instances, both limits 1: after the listing instance 1 gets through, instance 2
    waits for the decompress token holding the download token; the consumer's `next`/`close`
    release it. All tokens are back at the end. -/
example :
    Ex.a1.map (fun s => (s.dlFree, s.dcFree, s.pending, (getDl s 2).map (·.pc))) = some (0, 0, [(1, 5)], some (.wantDc 3 false)) ∧
    Ex.a2.map (fun s => (s.dlFree, s.dcFree, s.pending)) = some (1, 0, [(2, 3)]) ∧
    Ex.a3.map (fun s => (s.dlFree, s.dcFree, s.pending, s.holding, s.delivered)) = some (1, 1, [], none, [(2, 3), (1, 5)]) := by
  decide

/-- a corrupt newest blob: it is marked, both tokens come back, nothing is pending; the next
    listing ignores it and the previous snapshot is delivered. -/
example :
    Ex.b1.map (fun s => (s.dlFree, s.dcFree, s.pending, s.corrupt, AL.get s.lastSeen 1)) = some (2, 2, [], [(1, 6)], some 6) ∧
    Ex.b2.map (fun s => (s.dlFree, s.dcFree, s.pending, s.corrupt, AL.get s.lastSeen 1, s.ignored)) =
      some (2, 1, [(1, 5)], [(1, 6)], some 5, [(1, 6)]) := by
  decide

/-- an overwritten pending entry: the newer snapshot replaces the one not yet merged and the
    token of the replaced one is released (one decompress token in use, not two). -/
example :
    Ex.c1.map (fun s => (s.dlFree, s.dcFree, s.pending)) = some (2, 1, [(1, 5)]) ∧
    Ex.c2.map (fun s => (s.dlFree, s.dcFree, s.pending)) = some (2, 1, [(1, 6)]) := by
  decide

/-- **Why `NoResurrect` is needed (finding).** The only snapshot of instance 1 vanishes from the
    bucket while its downloader has not loaded it yet, the next listing shows no snapshot of the
    instance, and then a blob of the same name reappears. `lastNotifiedByInstance` still holds
    that name, so `RunOnce` does not notify; the downloader sleeps on its empty signal channel
    with `last` unset: the snapshot is listed as newest but never delivered, however often the
    listing is repeated, until the instance publishes a snapshot with another name. -/
theorem C16_orphan_witness :
    Ex.orphan.map (fun s => (AL.get s.lastSeen 1, getDl s 1, s.pending, s.holding, s.delivered, s.dlFree, s.dcFree)) =
      some (some 5, some ⟨none, false, .idle⟩, [], none, [], 1, 1) ∧
    Ex.orphan.map (fun s => decide ((runOnce false s).dls = s.dls ∧ (runOnce false s).lastSeen = s.lastSeen)) = some true := by
  decide

end Ls.C16
