import LsLemmas.TxnAbsShadow
import LsLemmas.TxnAbsShadowRun
import LsProps.C01Refine
import LsProps.C11
/-
  C01 (refinement, shadow mode) — the byte-level transactions of a NON-native schema (shadow
  DBIs, `schema_tracks_changes = false`), without the dupsort hack, refine — per transaction — the
  steps of the abstract last-writer-wins fleet of LsLemmas/AbsFleet.lean, once the application's
  pending writes are accounted for by the abstract capture.
  Model: LsModel/Txn.lean (`sendOnce`, `loadOnce`, `mainToShadow`, `shadowToMain`), following
  /repo/syncer/shadow.go mainToShadow / shadowToMain, /repo/syncer/sync.go LoadOnce,
  /repo/syncer/send.go SendOnce. Helper lemmas: LsLemmas/TxnAbsShadow.lean, built on BOTH families
  of transaction lemmas (`update_abs`, `createDbis_lookup`, `sendOnce_ok_iff`, `image_filter` of
  TxnAbs/TxnLoad/TxnSend; `mainToShadow_nondup` = C11_capture, `shadowToMain_nondup` = C11_project,
  `loadOnce_shadow_ok` of TxnMirror*). Property theorems only.

  Vocabulary (definitions in LsLemmas/TxnAbsShadow.lean; `Abs.DB = (DBI name × key) → Option Ver`):
  * `absShadow e : Abs.DB` — the logical content of a shadow-mode environment: for `(name, k)` with
    `name` a non-private (application) DBI name, `decodeS` (header timestamp, deleted flag,
    application value) of the value LMDB finds for `k` in the DBI `shadowName name`, in that DBI's
    own key order; `none` for a private name, a missing shadow, a missing key;
  * `appView e : DBI name × key → Option Bytes` — what the application sees: the value of `k` in
    its own DBI `name`;
  * `liveOf o` — the live value of an optional version; `projVer o` — the same, but nothing for an
    empty value (what the projection `shadowToMain` writes, finding D7);
  * `capture sh app now : Abs.DB` — the abstract capture (`C01_capture_spec`);
  * `Mirrored e` — the mirror invariant: `appView e key = liveOf (absShadow e key)` for every key,
    and no live shadow version has an empty value (the D7 exclusion, `NoEmptyLive`);
    `MirroredD e` is a decidable sufficient form (`C01_mirrored_decidable`);
  * decidable hypotheses: `ShadowWF e` (names strictly increasing; application DBIs without
    duplicate keys, sorted, keys of 1..511 bytes; a shadow has its application DBI's integer-key
    flag, is sorted with keys of 1..511 bytes and values that parse to well-formed versions; no
    shadow without application DBI), `AppNonEmpty e` (no empty application value — D7),
    `LiveNonEmpty e` (no live shadow version with an empty value — D7), `ClockBelow e now`
    (shared monotone clock: `now` above every timestamp stored in a shadow),
    `SnapWFShadow c e s` (`SnapOk s` as for the native theorem, and `FlagsOkSh`: application DBI and
    shadow — existing or created by the load — have the integer-key flag the message announces),
    `SnapLiveNonEmpty s` (no live entry with an empty value — D7).

  Scope: `c.native = false`, `c.hack = false` (a duplicate-keys application DBI makes either pass
  fail, so none exists: `ShadowWF` says so before, the theorems derive it after), byte-ordered or
  integer-key DBIs, stale-deletion cut-off 0 for `loadOnce` (any cut-off for `sendOnce`).
-/
namespace Ls.C01
open Ls Ls.Lmdb Ls.Txn
open Ls.Merge (KV norm decodeS)

/-! ## (A) the abstraction functions mean what they should -/

/-- **What `absShadow` and `appView` are.** For a private DBI name both are `none`. For a
    non-private name: `appView e (name, k)` is the value LMDB finds for `k` in the DBI `name` (in
    its own key order), `none` if the DBI or the key is missing; `absShadow e (name, k)` is `none`
    if the shadow DBI `shadowName name` or the key in it is missing, and `some v` if LMDB finds the
    stored value `b` there and `decodeS b = .ok (some v)` (header timestamp, deleted flag,
    application value). In a well-formed environment the logical content is well-formed
    (deleted ⇒ no value). -/
theorem C01_absShadow_spec (e : Env) (name k : Bytes) :
    (isPrivate name = true → absShadow e (name, k) = none ∧ appView e (name, k) = none) ∧
    (isPrivate name = false →
      (findDbi e.dbis name = none → appView e (name, k) = none) ∧
      (∀ d, findDbi e.dbis name = some d → appView e (name, k) = get (isIntKey d.flags) d.kvs k) ∧
      (findDbi e.dbis (shadowName name) = none → absShadow e (name, k) = none) ∧
      (∀ sd, findDbi e.dbis (shadowName name) = some sd →
        (get (isIntKey sd.flags) sd.kvs k = none → absShadow e (name, k) = none) ∧
        (∀ b v, get (isIntKey sd.flags) sd.kvs k = some b → decodeS b = .ok (some v) →
          absShadow e (name, k) = some v))) ∧
    (ShadowWF e → (absShadow e).WF) := by
  refine ⟨fun hp => ⟨absShD_private hp k, appVD_private hp k⟩, fun hp => ⟨?_, ?_, ?_, ?_⟩, ?_⟩
  · intro hd; exact appVD_of_none hd k
  · intro d hd; exact appVD_of_find hp hd k
  · intro hs; exact absShD_of_none hs k
  · intro sd hs
    have habs : absShadow e (name, k) = decodeO (get (isIntKey sd.flags) sd.kvs k) :=
      absShD_of_find hp hs k
    refine ⟨fun hg => by rw [habs, hg]; rfl, fun b v hg hd => ?_⟩
    rw [habs, hg]; exact decodeO_some hd
  · intro hwf
    exact absShD_wf ((shadowWF_iff e).mp hwf).2.1

/-- **What the abstract capture does**, key by key. (1) The application holds `v` and the shadow
    holds a live version with value `v`: the version is kept, timestamp included. (2) The
    application holds `v` and the shadow holds nothing, a deleted version, or a live version with
    another value: `(now, live, v)`. (3) The application lacks the key and the shadow holds a live
    version: `(now, deleted, ∅)`. (4) The application lacks the key and the shadow holds a deleted
    version: kept. (5) Neither has the key: nothing. (This is `C11_capture` (a)–(e) on logical
    content.) -/
theorem C01_capture_spec (sh : Abs.DB) (app : Abs.Key → Option Bytes) (now : Nat) (key : Abs.Key) :
    (∀ v o, app key = some v → sh key = some o → o.del = false → o.val = v →
      capture sh app now key = some o) ∧
    (∀ v, app key = some v → (∀ o, sh key = some o → o.del = true ∨ o.val ≠ v) →
      capture sh app now key = some { ts := now, del := false, val := v }) ∧
    (∀ o, app key = none → sh key = some o → o.del = false →
      capture sh app now key = some { ts := now, del := true, val := [] }) ∧
    (∀ o, app key = none → sh key = some o → o.del = true → capture sh app now key = some o) ∧
    (app key = none → sh key = none → capture sh app now key = none) := by
  refine ⟨?_, ?_, ?_, ?_, ?_⟩
  · intro v o ha hs hd hv
    simp [capture, captureO, ha, hs, liveOf, hd, hv]
  · intro v ha hs
    have : liveOf (sh key) ≠ some v := by
      cases hk : sh key with
      | none => simp [liveOf]
      | some o =>
        rcases hs o hk with h | h
        · simp [liveOf, h]
        · simp only [liveOf]
          split
          · simp
          · intro h0; injection h0 with h0; exact h h0
    simp [capture, captureO, ha, this]
  · intro o ha hs hd; simp [capture, captureO, ha, hs, hd]
  · intro o ha hs hd; simp [capture, captureO, ha, hs, hd]
  · intro ha hs; simp [capture, captureO, ha, hs]

/-- **The mirror invariant, in words.** `Mirrored e` holds iff (i) for every DBI name, key and
    value `v`: the application holds `v` under the key iff the shadow holds a live version
    `(ts, live, v)` for it, and (ii) no live shadow version has an empty value — the explicit D7
    exclusion: an empty live value cannot be mirrored, because the projection removes the key from
    the application DBI (`C11_empty_value_witness`). -/
theorem C01_mirrored_iff (e : Env) :
    Mirrored e ↔
      (∀ key v, appView e key = some v ↔
        ∃ ts, absShadow e key = some { ts := ts, del := false, val := v }) ∧
      (∀ key o, absShadow e key = some o → o.del = false → o.val ≠ []) := by
  constructor
  · rintro ⟨h1, h2⟩
    refine ⟨fun key v => ?_, h2⟩
    rw [h1 key]
    constructor
    · intro hl
      cases ho : absShadow e key with
      | none => rw [ho] at hl; cases hl
      | some o =>
        rw [ho] at hl
        simp only [liveOf] at hl
        split at hl
        · cases hl
        · rename_i hd
          injection hl with hl
          refine ⟨o.ts, ?_⟩
          cases o
          simp_all
    · rintro ⟨ts, ho⟩
      rw [ho]; rfl
  · rintro ⟨h1, h2⟩
    refine ⟨fun key => ?_, h2⟩
    cases ha : appView e key with
    | some v =>
      obtain ⟨ts, ho⟩ := (h1 key v).mp ha
      rw [ho]; rfl
    | none =>
      cases hl : liveOf (absShadow e key) with
      | none => rfl
      | some v =>
        exfalso
        cases ho : absShadow e key with
        | none => rw [ho] at hl; cases hl
        | some o =>
          rw [ho] at hl
          simp only [liveOf] at hl
          split at hl
          · cases hl
          · rename_i hd
            injection hl with hl
            have : appView e key = some v := (h1 key v).mpr ⟨o.ts, by
              rw [ho]; cases o; simp_all⟩
            rw [ha] at this; cases this

/-- **A decidable form of the mirror invariant, and of the D7 exclusions.** On a well-formed
    environment: if every application DBI is literally the list of the live entries of its shadow
    (empty, if it has no shadow) and no live shadow value is empty (`MirroredD`, decidable), the
    mirror invariant holds; the decidable predicates `LiveNonEmpty`, `ClockBelow`, `AppNonEmpty`,
    `SnapLiveNonEmpty` say about the logical content what their names say. -/
theorem C01_mirrored_decidable (e : Env) (s : Snap) (now : Nat) (hwf : ShadowWF e) :
    (MirroredD e → Mirrored e) ∧
    (LiveNonEmpty e ↔ NoEmptyLive (absShadow e)) ∧
    (ClockBelow e now ↔ ∀ key v, absShadow e key = some v → v.ts < now) ∧
    (AppNonEmpty e → ∀ key v, appView e key = some v → v ≠ []) ∧
    (SnapLiveNonEmpty s → NoEmptyLive (absSnap s)) := by
  obtain ⟨_, hok, _⟩ := (shadowWF_iff e).mp hwf
  exact ⟨mirrored_of_decidable hwf,
    ⟨fun h key o ho => shadowAll_abs hok h key o ho, fun h => shadowAll_of_abs hok h⟩,
    ⟨fun h key o ho => shadowAll_abs hok h key o ho, fun h => shadowAll_of_abs hok h⟩,
    appNonEmpty_abs, snapLiveNonEmpty_abs⟩

/-- **Without a pending local change the capture changes nothing**: under the mirror invariant
    `capture (absShadow e) (appView e) now = absShadow e`, for any `now`. -/
theorem C01_capture_mirrored (e : Env) (now : Nat) (hm : Mirrored e) :
    capture (absShadow e) (appView e) now = absShadow e :=
  capture_of_mirrored now hm.1

/-! ## (B) `sendOnce` -/

/-- **A shadow-mode `sendOnce` with pending local changes publishes the captured content.** If
    `sendOnce` succeeds (any cut-off) on a well-formed shadow-mode environment (not receive-only)
    whose application values are non-empty (D7) and whose stored shadow timestamps are all below
    `now` (shared monotone clock), with `now` and the next transaction id below 2^64, then: the
    logical content of the snapshot AND the shadow content of the new environment are the
    capture of the application's view into the old shadow content — every key whose application
    value differs from the live shadow value is stamped `(now, live, value)`, every key live in the
    shadow but missing in the application `(now, deleted)`, every other key is left alone
    (`C01_capture_spec`; this is `C11_capture` for the whole environment); the application DBIs are
    untouched; the new environment is well-formed and the application's view is the live content
    of its shadows; if no live shadow value was empty, it is `Mirrored`; the snapshot is `SnapOk`,
    names no private DBI and carries the flags of the application DBIs. -/
theorem C01_send_refines_shadow_pending (c : Cfg) (e : Env) (now cutoff : Nat) (r : SendRes)
    (hn : c.native = false) (hro : c.receiveOnly = false)
    (hT : e.lastTxn + 1 < two64) (hnow : now < two64)
    (hwf : ShadowWF e) (hne : AppNonEmpty e) (hclk : ClockBelow e now)
    (h : sendOnce c e now cutoff = .ok r) :
    absSnap r.snap = capture (absShadow e) (appView e) now ∧
    absShadow r.env = capture (absShadow e) (appView e) now ∧
    appView r.env = appView e ∧
    ShadowWF r.env ∧
    (∀ key, appView r.env key = liveOf (absShadow r.env key)) ∧
    (LiveNonEmpty e → Mirrored r.env) ∧
    SnapOk r.snap ∧
    (∀ m ∈ r.snap.dbs, isPrivate m.name = false ∧
      ∃ d, findDbi e.dbis m.name = some d ∧ m.flags = d.flags) := by
  obtain ⟨hs, hok, hnd⟩ := (shadowWF_iff e).mp hwf
  obtain ⟨a1, a2, a3, a4, a5, a6, a7⟩ := sendOnce_abs_sh c e now cutoff r hn hro hT hnow hs hok hnd
    (appNonEmpty_abs hne)
    (fun key o v ho _ _ => shadowAll_abs hok hclk key o ho) h
  have hsh : absShadow r.env = capture (absShadow e) (appView e) now := funext a4
  have happ : appView r.env = appView e := appVD_congr a3
  have hnd' : NoDupApp r.env.dbis := fun n d hp hf => hnd n d hp (by rw [← a3 n hp]; exact hf)
  have hlive : ∀ key, appView r.env key = liveOf (absShadow r.env key) := by
    intro key; rw [happ, hsh]; exact app_eq_live_capture _ _ now key
  refine ⟨?_, hsh, happ, (shadowWF_iff r.env).mpr ⟨a1, a2, hnd'⟩, hlive, ?_, a6, a7⟩
  · funext key; rw [a5 key]; exact a4 key
  · intro hl
    refine ⟨hlive, ?_⟩
    rw [hsh]
    exact noEmptyLive_capture now (fun key o ho => shadowAll_abs hok hl key o ho) (appNonEmpty_abs hne)

/-- **A shadow-mode `sendOnce` without pending local change publishes exactly the shadow content
    and changes none of it.** If `sendOnce` succeeds (any cut-off) on a well-formed shadow-mode
    environment (not receive-only) that satisfies the mirror invariant — the application DBIs are
    the live content of the shadows, no empty live value (D7) —, with `now` and the next
    transaction id below 2^64, then the logical content of the snapshot is the shadow content of
    the environment, the shadow content and the application's view are unchanged, the new
    environment is again well-formed and `Mirrored`, and the snapshot is `SnapOk` with the
    application DBIs' names and flags: the `send` step of the abstract fleet on `absShadow`. No
    clock hypothesis is needed: nothing is stamped. -/
theorem C01_send_refines_shadow (c : Cfg) (e : Env) (now cutoff : Nat) (r : SendRes)
    (hn : c.native = false) (hro : c.receiveOnly = false)
    (hT : e.lastTxn + 1 < two64) (hnow : now < two64)
    (hwf : ShadowWF e) (hm : Mirrored e)
    (h : sendOnce c e now cutoff = .ok r) :
    absSnap r.snap = absShadow e ∧ absShadow r.env = absShadow e ∧ appView r.env = appView e ∧
    ShadowWF r.env ∧ Mirrored r.env ∧ SnapOk r.snap ∧
    (∀ m ∈ r.snap.dbs, isPrivate m.name = false ∧
      ∃ d, findDbi e.dbis m.name = some d ∧ m.flags = d.flags) := by
  obtain ⟨hs, hok, hnd⟩ := (shadowWF_iff e).mp hwf
  obtain ⟨a1, a2, a3, a4, a5, a6, a7⟩ := sendOnce_abs_sh c e now cutoff r hn hro hT hnow hs hok hnd
    (mirrored_app_nonempty hm)
    (fun key o v ho hv hne' => (mirrored_no_change hm key o v ho hv hne').elim) h
  have hcap := C01_capture_mirrored e now hm
  have hsh : absShadow r.env = absShadow e := by
    rw [← hcap]; exact funext a4
  have happ : appView r.env = appView e := appVD_congr a3
  have hnd' : NoDupApp r.env.dbis := fun n d hp hf => hnd n d hp (by rw [← a3 n hp]; exact hf)
  refine ⟨?_, hsh, happ, (shadowWF_iff r.env).mpr ⟨a1, a2, hnd'⟩, ?_, a6, a7⟩
  · funext key; rw [a5 key, ← hsh]; rfl
  · refine ⟨fun key => ?_, ?_⟩
    · rw [happ, hsh]; exact hm.1 key
    · rw [hsh]; exact hm.2

/-! ## (C) `loadOnce` -/

/-- **A shadow-mode `loadOnce` (no dupsort hack, cut-off 0) is: capture the pending local
    changes, then the pointwise join, then project.** Let `loadOnce` succeed on a well-formed
    shadow-mode environment `e` with a snapshot that is well-formed relative to `e`
    (`SnapWFShadow`), `now` and the next transaction id below 2^64.
    * If the capture runs (`lastSynced < e.lastTxn`, i.e. `r.localChanged`), assume non-empty
      application values (D7) and the shared monotone clock (`now` above every stored shadow
      timestamp). Then the shadow content afterwards is
      `(capture (absShadow e) (appView e) now).join (absSnap snap)`.
    * If the capture does not run, assume — honestly — that there really is no pending local
      change: `Mirrored e`. Then the shadow content afterwards is `(absShadow e).join (absSnap snap)`
      — the `load` step of the abstract fleet — and nothing pending was left out: the capture
      would have been the identity. (Finding D9 is that `lastSynced` can be wrong; the
      equation as such does not need `Mirrored e`, see `C01_load_shadow_no_capture`, but without it
      the application's pending writes are not part of `absShadow e` and are overwritten.)
    In both cases the new environment is well-formed again (in particular no application DBI has
    duplicate keys: the projection would have failed), every application DBI is the projection of
    the new shadows (`projVer`: the live, non-empty values — `C11_step` for the whole
    environment, DBIs created by the load included), and if moreover no live value was or arrives
    empty (D7: `NoEmptyLive` of the old shadow content and of the snapshot) the new environment
    is `Mirrored`, so the statement composes along a run. -/
theorem C01_load_refines_shadow (c : Cfg) (e : Env) (snap : Snap) (lastSynced now : Nat) (r : LoadRes)
    (hn : c.native = false) (hh : c.hack = false)
    (hT : e.lastTxn + 1 < two64) (hnow : now < two64)
    (hwf : ShadowWF e) (hsw : SnapWFShadow c e snap)
    (hloc : lastSynced < e.lastTxn → AppNonEmpty e ∧ ClockBelow e now)
    (hnoloc : ¬ lastSynced < e.lastTxn → Mirrored e)
    (h : loadOnce c e snap lastSynced now 0 = .ok r) :
    r.localChanged = decide (lastSynced < e.lastTxn) ∧
    (lastSynced < e.lastTxn →
      absShadow r.env = (capture (absShadow e) (appView e) now).join (absSnap snap)) ∧
    (¬ lastSynced < e.lastTxn →
      absShadow r.env = (absShadow e).join (absSnap snap) ∧
      capture (absShadow e) (appView e) now = absShadow e) ∧
    ShadowWF r.env ∧
    (∀ key, appView r.env key = projVer (absShadow r.env key)) ∧
    (NoEmptyLive (absShadow e) → NoEmptyLive (absSnap snap) → Mirrored r.env) := by
  obtain ⟨hs, hok, hnd⟩ := (shadowWF_iff e).mp hwf
  have hlc : r.localChanged = decide (lastSynced < e.lastTxn) := by
    obtain ⟨_, _, _, _, _, _, _, hl, _⟩ := loadOnce_shadow_ok hn h
    exact hl
  obtain ⟨b1, b2, b3, b4, b5⟩ := loadOnce_abs_sh c e snap lastSynced now r hn hh hT hnow hs hok hnd
    hsw.1 hsw.2
    (fun hl => appNonEmpty_abs (hloc hl).1)
    (fun hl key o v ho _ _ => shadowAll_abs hok (hloc hl).2 key o ho) h
  have hwf' : ShadowWF r.env := (shadowWF_iff r.env).mpr ⟨b1, b2, b3⟩
  refine ⟨hlc, ?_, ?_, hwf', b5, ?_⟩
  · intro hl
    funext key
    have := b4 key
    rw [if_pos hl] at this
    exact this
  · intro hl
    refine ⟨?_, C01_capture_mirrored e now (hnoloc hl)⟩
    funext key
    have := b4 key
    rw [if_neg hl] at this
    exact this
  · intro hne1 hne2
    apply mirrored_of_proj b2 b5
    by_cases hl : lastSynced < e.lastTxn
    · have : absShadow r.env = (capture (absShadow e) (appView e) now).join (absSnap snap) := by
        funext key; have := b4 key; rw [if_pos hl] at this; exact this
      rw [this]
      exact noEmptyLive_join (noEmptyLive_capture now hne1 (appNonEmpty_abs (hloc hl).1)) hne2
    · have : absShadow r.env = (absShadow e).join (absSnap snap) := by
        funext key; have := b4 key; rw [if_neg hl] at this; exact this
      rw [this]
      exact noEmptyLive_join hne1 hne2

/-- **With an honest `lastSynced` both cases are one statement.** In the situation of
    `C01_load_refines_shadow` the shadow content afterwards is always
    `(capture (absShadow e) (appView e) now).join (absSnap snap)`: the join of the snapshot with the
    environment's logical content INCLUDING the application's pending writes (when the capture
    does not run there are none, by `Mirrored e`, and the capture is the identity). -/
theorem C01_load_refines_shadow_uniform (c : Cfg) (e : Env) (snap : Snap) (lastSynced now : Nat)
    (r : LoadRes) (hn : c.native = false) (hh : c.hack = false)
    (hT : e.lastTxn + 1 < two64) (hnow : now < two64)
    (hwf : ShadowWF e) (hsw : SnapWFShadow c e snap)
    (hloc : lastSynced < e.lastTxn → AppNonEmpty e ∧ ClockBelow e now)
    (hnoloc : ¬ lastSynced < e.lastTxn → Mirrored e)
    (h : loadOnce c e snap lastSynced now 0 = .ok r) :
    absShadow r.env = (capture (absShadow e) (appView e) now).join (absSnap snap) := by
  obtain ⟨_, h1, h2, _⟩ := C01_load_refines_shadow c e snap lastSynced now r hn hh hT hnow hwf hsw
    hloc hnoloc h
  by_cases hl : lastSynced < e.lastTxn
  · exact h1 hl
  · rw [(h2 hl).1, (h2 hl).2]

/-- **What a wrong `lastSynced` does (finding D9, stated positively).** If the capture does not
    run (`¬ lastSynced < e.lastTxn`), then — whatever the application DBIs contain, mirrored or
    not — the shadow content afterwards is `(absShadow e).join (absSnap snap)` and every
    application DBI is the projection of that: application writes that were pending (present in
    `appView e` but not in `absShadow e`) are neither captured nor kept. Hence the hypothesis
    `Mirrored e` in `C01_load_refines_shadow` for this case. -/
theorem C01_load_shadow_no_capture (c : Cfg) (e : Env) (snap : Snap) (lastSynced now : Nat)
    (r : LoadRes) (hn : c.native = false) (hh : c.hack = false)
    (hT : e.lastTxn + 1 < two64) (hnow : now < two64)
    (hwf : ShadowWF e) (hsw : SnapWFShadow c e snap)
    (hl : ¬ lastSynced < e.lastTxn)
    (h : loadOnce c e snap lastSynced now 0 = .ok r) :
    absShadow r.env = (absShadow e).join (absSnap snap) ∧
    (∀ key, appView r.env key = projVer (((absShadow e).join (absSnap snap)) key)) ∧
    ShadowWF r.env := by
  obtain ⟨hs, hok, hnd⟩ := (shadowWF_iff e).mp hwf
  obtain ⟨b1, b2, b3, b4, b5⟩ := loadOnce_abs_sh c e snap lastSynced now r hn hh hT hnow hs hok hnd
    hsw.1 hsw.2 (fun h0 => absurd h0 hl) (fun h0 => absurd h0 hl) h
  have heq : absShadow r.env = (absShadow e).join (absSnap snap) := by
    funext key; have := b4 key; rw [if_neg hl] at this; exact this
  refine ⟨heq, fun key => ?_, (shadowWF_iff r.env).mpr ⟨b1, b2, b3⟩⟩
  rw [← heq]; exact b5 key

/-! ## (D) a concrete instance (the hypotheses are satisfiable, the equations are not vacuous) -/

namespace ShadowExample

def cfg : Cfg := { native := false, hack := false, pad := false, receiveOnly := false, override := [] }

def app : Bytes := strBytes "app"

/-- the shadow of `app`: keys 1, 2, 3 live ("A" at 50, "B" at 60, "C" at 70), key 4 a deletion
    marker (at 40), key 6 live ("F" at 30) -/
def shadow : Dbi :=
  { name := shadowName app, flags := 0,
    kvs := [([1], liveBytes 50 3 [65]), ([2], liveBytes 60 4 [66]), ([3], liveBytes 70 5 [67]),
            ([4], markerBytes 40 2), ([6], liveBytes 30 1 [70])] }

/-- a shadow-mode environment with pending local changes (written in transaction 7, last
    synchronised transaction 6): key 1 overwritten ("a"), key 5 new ("e"), key 6 deleted; keys 2
    and 3 as mirrored -/
def env : Env :=
  { dbis := [shadow,
      { name := app, flags := 0, kvs := [([1], [97]), ([2], [66]), ([3], [67]), ([5], [101])] }],
    lastTxn := 7 }

/-- the same environment without pending changes (the application DBI is the projection) -/
def envM : Env :=
  { dbis := [shadow,
      { name := app, flags := 0, kvs := [([1], [65]), ([2], [66]), ([3], [67]), ([6], [70])] }],
    lastTxn := 7 }

/-- a version-3 snapshot for `app`: key 1 at 80 (older than the local overwrite detected at 100),
    key 2 at 90 (newer than the stored 60), key 3 at 10 (older than the stored 70), key 7 a
    deletion marker at 20 (a new key) -/
def snap : Snap :=
  { fv := 3, cv := 1, dbs := [
      { name := app, flags := 0, transform := [], entries := [
          { key := [1], val := [88], ts := 80, flags := 0 },
          { key := [2], val := [89], ts := 90, flags := 0 },
          { key := [3], val := [90], ts := 10, flags := 0 },
          { key := [7], val := [], ts := 20, flags := 1 } ] } ] }

def keys : List Abs.Key := [1, 2, 3, 4, 5, 6, 7].map fun i => (app, [i])

/-- the hypotheses of `C01_load_refines_shadow` (capture case) and of
    `C01_send_refines_shadow_pending` hold for `env`, `snap`, detection time 100 -/
example : cfg.native = false ∧ cfg.hack = false ∧ cfg.receiveOnly = false ∧
    env.lastTxn + 1 < two64 ∧ 100 < two64 ∧ 6 < env.lastTxn ∧
    ShadowWF env ∧ SnapWFShadow cfg env snap ∧ AppNonEmpty env ∧ ClockBelow env 100 ∧
    LiveNonEmpty env ∧ SnapLiveNonEmpty snap := by
  decide +kernel

/-- the shadow content, the application's view, the snapshot's content, and the capture at 100:
    key 1 restamped with the local value, key 5 new, key 6 deleted, the rest untouched -/
example :
    keys.map (absShadow env) =
      [some ⟨50, false, [65]⟩, some ⟨60, false, [66]⟩, some ⟨70, false, [67]⟩, some ⟨40, true, []⟩,
       none, some ⟨30, false, [70]⟩, none] ∧
    keys.map (appView env) = [some [97], some [66], some [67], none, some [101], none, none] ∧
    keys.map (absSnap snap) =
      [some ⟨80, false, [88]⟩, some ⟨90, false, [89]⟩, some ⟨10, false, [90]⟩, none, none, none,
       some ⟨20, true, []⟩] ∧
    keys.map (capture (absShadow env) (appView env) 100) =
      [some ⟨100, false, [97]⟩, some ⟨60, false, [66]⟩, some ⟨70, false, [67]⟩, some ⟨40, true, []⟩,
       some ⟨100, false, [101]⟩, some ⟨100, true, []⟩, none] := by
  decide +kernel

/-- `loadOnce` with the local change (`lastSynced = 6 < 7`) succeeds, and both sides of
    `C01_load_refines_shadow`: the local overwrite of key 1 (stamped 100) beats the snapshot's 80,
    the snapshot's newer key 2 replaces, its older key 3 loses, its marker for key 7 arrives;
    the application sees the projection; the result is well-formed and mirrored -/
example :
    ((loadOnce cfg env snap 6 100 0).toOption.map fun r =>
      (r.localChanged, keys.map (absShadow r.env), keys.map (appView r.env))) =
      some (true,
        [some ⟨100, false, [97]⟩, some ⟨90, false, [89]⟩, some ⟨70, false, [67]⟩, some ⟨40, true, []⟩,
         some ⟨100, false, [101]⟩, some ⟨100, true, []⟩, some ⟨20, true, []⟩],
        [some [97], some [89], some [67], none, some [101], none, none]) ∧
    keys.map ((capture (absShadow env) (appView env) 100).join (absSnap snap)) =
      [some ⟨100, false, [97]⟩, some ⟨90, false, [89]⟩, some ⟨70, false, [67]⟩, some ⟨40, true, []⟩,
       some ⟨100, false, [101]⟩, some ⟨100, true, []⟩, some ⟨20, true, []⟩] ∧
    ((loadOnce cfg env snap 6 100 0).toOption.map fun r =>
      (decide (ShadowWF r.env), decide (MirroredD r.env))) = some (true, true) := by
  decide +kernel

/-- `sendOnce` on `env` (pending changes): the snapshot's content and the new shadow content are
    the capture (`C01_send_refines_shadow_pending`) -/
example :
    ((sendOnce cfg env 100 0).toOption.map fun r =>
      (keys.map (absSnap r.snap), keys.map (absShadow r.env), decide (SnapOk r.snap))) =
      some (keys.map (capture (absShadow env) (appView env) 100),
            keys.map (capture (absShadow env) (appView env) 100), true) := by
  decide +kernel

/-- `envM` is well-formed and satisfies the decidable form of the mirror invariant, hence
    `Mirrored envM` (`C01_mirrored_decidable`): the hypotheses of `C01_send_refines_shadow` and of
    the no-capture case of `C01_load_refines_shadow` hold -/
example : ShadowWF envM ∧ MirroredD envM ∧ SnapWFShadow cfg envM snap ∧ ¬ 7 < envM.lastTxn := by
  decide +kernel

example : Mirrored envM :=
  (C01_mirrored_decidable envM snap 0 (by decide +kernel)).1 (by decide +kernel)

/-- … and on `envM`: `sendOnce` publishes exactly the shadow content; `loadOnce` without capture
    (`lastSynced = 7`) yields the plain join -/
example :
    ((sendOnce cfg envM 100 0).toOption.map fun r =>
      (keys.map (absSnap r.snap), keys.map (absShadow r.env))) =
      some (keys.map (absShadow envM), keys.map (absShadow envM)) ∧
    ((loadOnce cfg envM snap 7 100 0).toOption.map fun r =>
      (r.localChanged, keys.map (absShadow r.env))) =
      some (false, keys.map ((absShadow envM).join (absSnap snap))) ∧
    keys.map ((absShadow envM).join (absSnap snap)) =
      [some ⟨80, false, [88]⟩, some ⟨90, false, [89]⟩, some ⟨70, false, [67]⟩, some ⟨40, true, []⟩,
       none, some ⟨30, false, [70]⟩, some ⟨20, true, []⟩] := by
  decide +kernel

/-- finding D9 on `env`: with a wrong `lastSynced` (7 instead of 6) the capture does not run and
    the pending overwrite of key 1, the new key 5 and the deletion of key 6 are gone — the
    application sees the projection of the plain join (`C01_load_shadow_no_capture`) -/
example :
    ((loadOnce cfg env snap 7 100 0).toOption.map fun r => keys.map (appView r.env)) =
      some [some [88], some [89], some [67], none, none, some [70], none] := by
  decide +kernel

end ShadowExample

/-! ## (E) runs -/

/-- **The invariant of a shadow-mode fleet, from decidable predicates.** An environment that is
    `ShadowWF`, has no empty live shadow value and no empty application value (D7:
    `LiveNonEmpty`, `AppNonEmpty`) and only byte-ordered application DBIs (`ByteOrdD`) satisfies
    `EnvInv`, and conversely; a snapshot that is `SnapOk`, announces byte order for every
    application DBI and has no live entry with an empty value (`SnapInvD`) satisfies `SnapInv`. -/
theorem C01_shadow_inv_decidable (e : Env) (s : Snap) :
    (EnvInv e ↔ ShadowWF e ∧ LiveNonEmpty e ∧ AppNonEmpty e ∧ ByteOrdD e) ∧
    (SnapInvD s → SnapInv s) :=
  ⟨⟨envInv_decidable, fun h => envInv_of_decidable h.1 h.2.1 h.2.2.1 h.2.2.2⟩, snapInv_of_decidable⟩

/-- **What the abstract writes of a capture are.** `capWrites i e now` consists of writes of
    instance `i` only; each writes, for a key whose captured version differs from the stored
    shadow version, exactly that captured version — `(now, live, value)` for a key the application
    overwrote or created, `(now, deleted, ∅)` for a key it deleted (`C01_capture_spec`) —, and
    under the invariant every key the capture changes is written. -/
theorem C01_capture_writes (i : Nat) (e : Env) (now : Nat) :
    (∀ s ∈ capWrites i e now, ∃ key v, s = Abs.Step.write i key v ∧
      capture (absShadow e) (appView e) now key = some v ∧ some v ≠ absShadow e key) ∧
    (EnvInv e → ∀ key, capture (absShadow e) (appView e) now key ≠ absShadow e key →
      ∃ v, capture (absShadow e) (appView e) now key = some v ∧
        Abs.Step.write i key v ∈ capWrites i e now) :=
  capWrites_spec i e now

/-- **Every byte-level run of a shadow-mode fleet is a run of the abstract fleet.** A byte-level
    fleet (`BFleet`) is `n` environments and a bucket of snapshots; a step (`SStep`) is an
    application transaction putting one value (`appWrite`) or deleting one key (`appDelete`), a
    `sendOnce` at time `now` whose snapshot is appended to the bucket, or a `loadOnce` (cut-off 0)
    of any snapshot of the bucket at time `now` with some `lastSynced`; a failing or refused
    transaction leaves everything as it was (`sstep`). Let the configuration be shadow mode, no
    dupsort hack, not receive-only, with byte-ordered create-flag overrides (`CfgByte`); let the
    invariant `SInv` hold at the start (every environment `EnvInv` — decidable form:
    `C01_shadow_inv_decidable` —, every snapshot of the bucket `SnapInv`); and let every step
    satisfy its side condition in the state it is applied to (`SRunOk`/`SStepOk`; nothing is
    assumed about success): an application write puts a NON-EMPTY value (D7) into a non-private
    DBI; a delete concerns a non-private DBI; a `send`/`load` at instance `i` happens below
    transaction id 2^64, at a time `now` < 2^64 above every timestamp stored in the shadows of
    instance `i` (shared monotone clock — only the instance's own shadows matter); and every `load`
    is told the truth about local changes: `lastSynced < lastTxn` (the capture runs) or the
    environment is `Mirrored` (nothing to capture) — exactly the discipline finding D9 violates.
    The conditions a snapshot must satisfy to be loaded (`SnapWFShadow` against the loading
    environment) are NOT assumed: they follow from the invariant (all snapshots were produced by
    `send` steps or satisfy `SnapInv` initially; all application DBIs everywhere are byte-ordered).
    Then, with the abstract schedule `absRunShadow` — nothing for an application transaction; for
    a `send`/`load` that took place the abstract writes of its capture (`C01_capture_writes`:
    `write i key (now, live, value)` / `write i key (now, deleted, ∅)` for exactly the captured
    keys) followed by the abstract `send i` / `load i idx` —: the abstraction (`absShadowFleet`:
    `absShadow` of every environment, `absSnap` of every snapshot) of the final state is the state
    the abstract fleet reaches from the abstraction of the initial state; the invariant holds
    again; the abstract schedule is one the theorems of LsProps/C01.lean apply to (`StepsWF`,
    `MonotoneFrom`, `FleetWF`); and after every Lightning Stream transaction that took place its
    instance is `Mirrored` (`LsMirrored`). -/
theorem C01_shadow_run_refines (c : Cfg) (hn : c.native = false) (hh : c.hack = false)
    (hro : c.receiveOnly = false) (hcb : CfgByte c)
    (steps : List SStep) (f : BFleet) (hinv : SInv f) (hok : SRunOk c f steps) :
    absShadowFleet (srun c f steps) = Abs.run (absShadowFleet f) (absRunShadow c f steps) ∧
    SInv (srun c f steps) ∧
    Abs.StepsWF (absRunShadow c f steps) ∧
    Abs.MonotoneFrom (absShadowFleet f) (absRunShadow c f steps) ∧
    Abs.FleetWF (absShadowFleet f) ∧
    LsMirrored c f steps := by
  obtain ⟨h1, h2, h3, h4, h5⟩ := srun_refines c hn hh hro hcb steps f hinv hok
  exact ⟨h1, h2, h3, h4, absShadowFleet_wf hinv, h5⟩

/-! ## (F) a concrete run: two instances, conflicting local writes, exchange both ways -/

namespace ShadowRunExample
open ShadowExample (cfg app)

/-- an environment with an empty application DBI `app` and no shadow yet -/
def env0 : Env := { dbis := [{ name := app, flags := 0, kvs := [] }], lastTxn := 0 }

def fleet : BFleet := { n := 2, env := fun _ => env0, bucket := [] }

/-- instance 0 writes key 1 = "A" and writes-then-deletes key 3; instance 1 writes key 1 = "B"
    (a conflict) and key 2 = "C"; both send (at 100 and 110); each loads the other's snapshot (at
    120, 130; `lastSynced = 0`, so the capture always runs); then instance 1 deletes key 2, sends
    (at 140), and instance 0 loads that (at 150) -/
def steps : List SStep :=
  [.appWrite 0 app [1] [65], .appWrite 0 app [3] [68], .appDelete 0 app [3],
   .appWrite 1 app [1] [66], .appWrite 1 app [2] [67],
   .send 0 100, .send 1 110, .load 0 1 0 120, .load 1 0 0 130,
   .appDelete 1 app [2], .send 1 140, .load 0 2 0 150]

/-- the hypotheses of `C01_shadow_run_refines` hold -/
example : cfg.native = false ∧ cfg.hack = false ∧ cfg.receiveOnly = false ∧ CfgByte cfg := by
  decide +kernel

/-- the initial environment of the example satisfies the invariant (by the decidable form) -/
theorem C01_example_env0 : EnvInv env0 :=
  envInv_of_decidable (by decide +kernel) (by decide +kernel) (by decide +kernel) (by decide +kernel)

example : SInv fleet := ⟨fun _ => C01_example_env0, fun _ h => by cases h⟩

/-- `app` is an application (non-private) DBI name -/
theorem C01_example_private : isPrivate app = false := by decide +kernel

example : SRunOk cfg fleet steps :=
  ⟨⟨C01_example_private, by decide⟩, ⟨C01_example_private, by decide⟩, C01_example_private,
   ⟨C01_example_private, by decide⟩, ⟨C01_example_private, by decide⟩,
   ⟨by decide +kernel, by decide +kernel, by decide +kernel⟩,
   ⟨by decide +kernel, by decide +kernel, by decide +kernel⟩,
   ⟨by decide +kernel, by decide +kernel, by decide +kernel, Or.inl (by decide +kernel)⟩,
   ⟨by decide +kernel, by decide +kernel, by decide +kernel, Or.inl (by decide +kernel)⟩,
   C01_example_private,
   ⟨by decide +kernel, by decide +kernel, by decide +kernel⟩,
   ⟨by decide +kernel, by decide +kernel, by decide +kernel, Or.inl (by decide +kernel)⟩,
   trivial⟩

def keys : List Abs.Key := [1, 2, 3].map fun i => (app, [i])

/-- all steps take place; both instances end with the same content: key 1 = "B" (the later
    detection, 110, wins the conflict), key 2 deleted at 140, key 3 never seen by anybody; and
    both applications see the same -/
example :
    keys.map (absShadow ((srun cfg fleet steps).env 0)) =
      [some ⟨110, false, [66]⟩, some ⟨140, true, []⟩, none] ∧
    keys.map (absShadow ((srun cfg fleet steps).env 1)) =
      [some ⟨110, false, [66]⟩, some ⟨140, true, []⟩, none] ∧
    keys.map (appView ((srun cfg fleet steps).env 0)) = [some [66], none, none] ∧
    keys.map (appView ((srun cfg fleet steps).env 1)) = [some [66], none, none] ∧
    (srun cfg fleet steps).bucket.length = 3 := by
  decide +kernel

/-- the abstract schedule of that run: the application writes appear as abstract writes at
    capture time, stamped with the detection time -/
example :
    absRunShadow cfg fleet steps =
      [.write 0 (app, [1]) ⟨100, false, [65]⟩, .send 0,
       .write 1 (app, [1]) ⟨110, false, [66]⟩, .write 1 (app, [2]) ⟨110, false, [67]⟩, .send 1,
       .load 0 1, .load 1 0,
       .write 1 (app, [2]) ⟨140, true, []⟩, .send 1, .load 0 2] := by
  decide +kernel

end ShadowRunExample

end Ls.C01
