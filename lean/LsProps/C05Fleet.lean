import LsLemmas.LoopBucket
import LsProps.C12
import LsProps.C01Loop
/-
  C05 (fleets of sync loops with the real cleaner) — published data is never lost from the bucket.
  The product fleet of native-mode sync loops (LsLemmas/LoopBound.lean, LsLemmas/LoopAbs.lean)
  extended with the model of the real cleaner (LsModel/Cleaner.lean `runOnce`): an event
  `clean k now` runs instance `k`'s `Worker.RunOnce` at time `now` on the names of the shared
  bucket, with `lastByInstance` = the `St.committed` of `k`'s loop (what `SetCommitted` was handed
  after the latest successful store), every `Delete` succeeding; the deleted blobs leave the one
  bucket all instances see (`xstep`, LsLemmas/LoopBucket.lean). Property theorems only.

  Vocabulary: `Naming` — how a blob `(inst, ts)` is named and `ParseName` reads the name back
  (`law`; `unaryNaming` is a lawful instance); `XF` — loop fleet, cleaner states, and the ghost
  list `ever` of all blobs ever stored, in storage order; `X.bucket` — the one bucket;
  `blobDB x = absSnap x.snap`; `isNewest B x` — no blob of `x`'s instance in `B` has a larger
  timestamp; `bucketJoin B` — the last-writer-wins join of `blobDB` over the newest blob of every
  instance with a blob in `B`; `XInv` — the invariant (one bucket; environments `EnvWF`; blobs of
  one instance stored in timestamp order with growing content; every instance holds what it
  published; `committed` ⊆ what was merged before a stored dump; the WITNESS invariant; the
  cleaners' first-seen times respect the storage order); side conditions `XRunOk` / `XOk`:
  `LoopOkX` (the conditions `LoopOkN` of `C01_loop_fleet_refines_native`, plus the per-instance
  clock: the time a segment reads is above the timestamps of all blobs its instance has stored)
  and `CleanOk` (the per-cleaner clock: `now` is not below any first-seen time it recorded).
-/
namespace Ls.C05
open Ls Ls.Lmdb Ls.Txn Ls.SyncLoop Ls.Loop

/-! ## (1) what the cleaner deletes -/

/-- **One cleaner run, any state.** For any naming with `parse (nm a t) = snapshot a t`, any cleaner
    configuration (enabled or not, any `mustKeep`, `removeOld`) and state whose ignore list holds only
    unparsable names, run at any time `now` on the names of a bucket `B` in which the blobs of one
    instance carry distinct timestamps and whose first-seen times respect the timestamp order per
    instance (`FsOrdered`: what a clock that does not go backwards and blobs appearing in timestamp
    order give — the hypotheses of `C12_newest_protected_partial`, here as a property of the state;
    `C05_cleaner_deletes_guarded` derives it from the loop model): every blob `Delete` is called on
    is NOT the newest blob of its instance in the bucket, or its timestamp is at most the time the
    cleaner was told (`lastByInstance`) for the blob's instance. -/
theorem C05_cleaner_run_guarded (N : Naming) (cfg : Cleaner.Cfg) (st : Cleaner.St) (now : Int) (B : Bucket)
    (hig : ∀ n ∈ st.ignored, N.parse n = none) (hdist : DistinctTs B)
    (hord : FsOrdered N st.firstSeen B) (x : Blob)
    (hdel : N.nameOf x ∈
      (Cleaner.runOnce N.parse cfg st now (some (B.map N.nameOf)) (fun _ => false)).2.delCalls) :
    (∃ y ∈ B, y.inst = x.inst ∧ x.ts < y.ts) ∨
    (∃ T, Cleaner.look x.inst st.committed = some T ∧ (x.ts : Int) ≤ T) :=
  clean_deletes_guarded N cfg st now B hig hdist hord x hdel

/-- **What a cleaner of the fleet deletes.** In every state of the extended fleet satisfying the
    invariant `XInv` (every state an admissible schedule reaches,
    `C05_loop_fleet_join_monotone_partial`), for every instance `k` of the fleet, any cleaner
    configuration and any time `now`: every blob `w` the run deletes is EITHER not the newest blob
    of its instance in the bucket, OR its timestamp is at most the time `p.2` that `k`'s loop has in
    `St.committed` for `w`'s instance — and that entry is backed by the storage history: a blob of
    that instance with timestamp `p.2` (that very blob `w`, or a newer one of the same instance)
    was stored, and `k` merged it BEFORE taking a dump `d` that was then stored and whose content
    dominates it (`committed` ⊆ `lastBy` at the time of `k`'s latest successful store). The order
    and clock hypotheses of `C12_newest_protected_partial` are not assumed here: they are part of
    the invariant, derived from the per-instance and per-cleaner clock conditions of the schedule. -/
theorem C05_cleaner_deletes_guarded (N : Naming) (cs : Nat → LoopCfg) (ccfg : Nat → Cleaner.Cfg)
    (n : Nat) (X : XF) (k now : Nat) (hinv : XInv N cs n X) (hk : k < n) (w : Blob)
    (hd : dead N (cleanRun N ccfg selCommitted X k now).2 w = true) :
    (∃ y ∈ X.bucket, y.inst = w.inst ∧ w.ts < y.ts) ∨
    ∃ p ∈ (X.F k).st.committed, p.1 = w.inst ∧ w.ts ≤ p.2 ∧
      ∃ (q : Nat) (d : Blob), X.ever[q]? = some d ∧
        ∃ (i : Nat) (z : Blob), i < q ∧ X.ever[i]? = some z ∧ z.inst = p.1 ∧ z.ts = p.2 ∧
          (blobDB z).le (blobDB d) :=
  xclean_guarded N cs ccfg n X k now hinv hk w hd

/-! ## (2) the join over the newest snapshots never decreases -/

/-- **The witness invariant for fleets of sync loops.** In every state satisfying `XInv`, every
    blob ever stored (position `p` of the storage history, deleted or not) is dominated by a blob
    stored no earlier that is still in the bucket and is the newest blob of its instance there —
    `C05_witness_invariant_ordered`, for the loop fleet with the real cleaner. -/
theorem C05_loop_fleet_witness (N : Naming) (cs : Nat → LoopCfg) (n : Nat) (X : XF)
    (hinv : XInv N cs n X) (p : Nat) (x : Blob) (hx : X.ever[p]? = some x) :
    ∃ (q : Nat) (w : Blob), p ≤ q ∧ X.ever[q]? = some w ∧ w ∈ X.bucket ∧
      isNewest X.bucket w = true ∧ (blobDB x).le (blobDB w) :=
  hinv.wit p x hx

/-- **One event.** From a state satisfying the invariant, an event satisfying its side condition
    leads to a state satisfying the invariant, and the join over the newest blobs of the bucket
    after the event is, for every key, at least as new as before. -/
theorem C05_loop_fleet_join_step (N : Naming) (cs : Nat → LoopCfg) (ccfg : Nat → Cleaner.Cfg) (n : Nat)
    (hn : ∀ j, (cs j).txn.native = true) (hro : ∀ j, (cs j).txn.receiveOnly = false)
    (hown : ∀ i j, i < n → j < n → (cs i).own = (cs j).own → i = j)
    (X : XF) (e : XEv) (hinv : XInv N cs n X) (hok : XOk cs n X e) :
    XInv N cs n (xstep N cs ccfg selCommitted X e) ∧
    (bucketJoin X.bucket).le (bucketJoin (xstep N cs ccfg selCommitted X e).bucket) :=
  xinv_step N cs ccfg n hn hro hown X e hinv hok

/-- **Property C05 for fleets of native-mode sync loops with the real cleaner model.** `n`
    instances with pairwise distinct names, native schema, not receive-only, each booting from its
    own well-formed environment with a fresh cleaner (any cleanup configuration per instance:
    enabled or not, any `mustKeep`, any `removeOld`), over an empty bucket; any lawful `Naming`.
    Along every schedule of loop events (segments with arbitrary receiver answers, store failures
    and — increasing per instance — clock readings; single-put application transactions as in
    `LoopOkN`; listings) and cleaner runs of any instance, at any times that do not go backwards
    per cleaner (`XRunOk`): at every moment the newest snapshots of all instances jointly contain,
    for every key, a version at least as new as any version they jointly contained before —
    `(bucketJoin B_before).le (bucketJoin B_after)` for any two moments of the schedule — and the
    invariant `XInv` holds throughout (so `C05_cleaner_deletes_guarded` and
    `C05_loop_fleet_witness` apply at every moment).
    `_partial`: no restarts (an instance never loses its LMDB or its loop state; with restarts the
    abstract system of LsProps/C05.lean needs the "wait for the own snapshot" guard, which the
    loop model has as `waiting` but which is not connected here); native mode only; no blobs from
    outside the fleet; every `Delete` succeeds (a failing `Delete` only deletes less). -/
theorem C05_loop_fleet_join_monotone_partial (N : Naming) (cs : Nat → LoopCfg)
    (ccfg : Nat → Cleaner.Cfg) (n : Nat)
    (hn : ∀ j, (cs j).txn.native = true) (hro : ∀ j, (cs j).txn.receiveOnly = false)
    (hown : ∀ i j, i < n → j < n → (cs i).own = (cs j).own → i = j)
    (envs : Nat → Env) (hwf : ∀ j, EnvWF (envs j))
    (pre post : List XEv) (hok : XRunOk N cs ccfg n (xinit envs) (pre ++ post)) :
    XInv N cs n (xrun N cs ccfg selCommitted (xinit envs) pre) ∧
    XInv N cs n (xrun N cs ccfg selCommitted (xinit envs) (pre ++ post)) ∧
    (bucketJoin (xrun N cs ccfg selCommitted (xinit envs) pre).bucket).le
      (bucketJoin (xrun N cs ccfg selCommitted (xinit envs) (pre ++ post)).bucket) := by
  obtain ⟨h1, h2⟩ := xrunOk_append pre post _ hok
  obtain ⟨i1, _⟩ := xinv_run N cs ccfg n hn hro hown pre _ (xinv_init N cs n envs hwf) h1
  obtain ⟨i2, hle⟩ := xinv_run N cs ccfg n hn hro hown post _ i1 h2
  rw [xrun_append]
  exact ⟨i1, i2, hle⟩

/-! ## (3) the guard is necessary; the hypotheses are satisfiable -/

namespace FleetExample
open Ls.Loop.Witness (cfgN app)
open Ls.Loop.BoundWitness (hv)
open Ls.C01.LoopExample (seg)
open Ls.C01.LoopExampleN (cfgNb csN envN)

/-- cleanup enabled, both intervals zero (only the order of times matters) -/
def ccfg : Nat → Cleaner.Cfg := fun _ => { enabled := true, mustKeep := 0, removeOld := 0 }

def X0 : XF := xinit (fun _ => envN)

/-- "a" writes key 1 and starts: its start-up `SendOnce` dumps at 5 and stores blob `a@5`; "b"
    starts; b's cleaner runs for the first time (at 10: it only records what it sees); "b" merges
    `a@5` and records it in `lastBy` — but has NOT uploaded anything -/
def common : List XEv :=
  [.loop (0, .app [.put app [1] (hv 65)]),
   .loop (0, seg none 5), .loop (0, seg none 6), .loop (0, seg none 7),
   .loop (1, seg none 8),
   .clean 1 10,
   .loop (1, seg (some ("a", 5)) 11), .loop (1, seg none 12)]

/-- … "b" writes key 2, runs its iteration: dumps at 14, stores `b@14`, and tells its cleaner
    (`committed := lastBy`) -/
def upload : List XEv :=
  [.loop (1, .app [.put app [2] (hv 66)]),
   .loop (1, seg none 13), .loop (1, seg none 14), .loop (1, seg none 15), .loop (1, seg none 16)]

def k1 : Abs.Key := (app, [1])

/-- **The guard is necessary (the aliasing bug).** If the cleaner is told `lastBy` (merged, but
    not yet uploaded) instead of `committed`, then after `common` a run of b's cleaner at 20 deletes
    `a@5` — the newest and only blob of "a", which "b" has merged but never re-published: the
    bucket is empty, and the join over the newest snapshots, which held key 1, holds nothing — it
    DECREASES. With `committed` (empty: "b" never stored) the same run deletes nothing. -/
theorem C05_lastBy_instead_of_committed_loses_data :
    let Xc := xrun unaryNaming csN ccfg selLastBy X0 common
    ((Xc.F 1).st.lastBy = [("a", 5)] ∧ (Xc.F 1).st.committed = []) ∧
    (Xc.bucket.map fun x => (x.inst, x.ts)) = [("a", 5)] ∧
    bucketJoin Xc.bucket k1 = some ⟨7, false, [65]⟩ ∧
    (xstep unaryNaming csN ccfg selLastBy Xc (.clean 1 20)).bucket = [] ∧
    ¬ (bucketJoin Xc.bucket).le (bucketJoin (xstep unaryNaming csN ccfg selLastBy Xc (.clean 1 20)).bucket) ∧
    ((xstep unaryNaming csN ccfg selCommitted Xc (.clean 1 20)).bucket.map fun x => (x.inst, x.ts)) =
      [("a", 5)] := by
  intro Xc
  have e1 : bucketJoin Xc.bucket k1 = some ⟨7, false, [65]⟩ := by decide +kernel
  have e2 : (xstep unaryNaming csN ccfg selLastBy Xc (.clean 1 20)).bucket = [] := by decide +kernel
  refine ⟨by decide +kernel, by decide +kernel, e1, e2, ?_, by decide +kernel⟩
  intro hle
  have := hle k1
  rw [e1, e2] at this
  cases this

/-- `app` is an application DBI name; the written values are well-formed stored values -/
theorem C05_example_facts : isPrivate app = false ∧ StoredWF (hv 65) ∧ StoredWF (hv 66) := by
  decide +kernel

/-- **The hypotheses are satisfiable, with a cleaner that really deletes.** The schedule
    `common ++ upload` followed by a run of b's cleaner at 20 satisfies every side condition; the
    run deletes `a@5` — the newest blob of "a", legitimately: "b" merged it before its dump `b@14`,
    which is stored — and the join over the newest snapshots still holds key 1 (now through
    `b@14`), and key 2. -/
theorem C05_example_runOk :
    XRunOk unaryNaming csN ccfg 2 X0 (common ++ upload ++ [.clean 1 20]) :=
  ⟨loopOkX_put (by decide) C05_example_facts.1 C05_example_facts.2.1 (by decide +kernel) (by decide +kernel),
   loopOkX_go _ (by decide) (by decide +kernel) (by decide +kernel) (by decide +kernel),
   loopOkX_go _ (by decide) (by decide +kernel) (by decide +kernel) (by decide +kernel),
   loopOkX_go _ (by decide) (by decide +kernel) (by decide +kernel) (by decide +kernel),
   loopOkX_go _ (by decide) (by decide +kernel) (by decide +kernel) (by decide +kernel),
   (by decide +kernel : CleanOk 2 _ 1 10),
   loopOkX_go _ (by decide) (by decide +kernel) (by decide +kernel) (by decide +kernel),
   loopOkX_go _ (by decide) (by decide +kernel) (by decide +kernel) (by decide +kernel),
   loopOkX_put (by decide) C05_example_facts.1 C05_example_facts.2.2 (by decide +kernel) (by decide +kernel),
   loopOkX_go _ (by decide) (by decide +kernel) (by decide +kernel) (by decide +kernel),
   loopOkX_go _ (by decide) (by decide +kernel) (by decide +kernel) (by decide +kernel),
   loopOkX_go _ (by decide) (by decide +kernel) (by decide +kernel) (by decide +kernel),
   loopOkX_go _ (by decide) (by decide +kernel) (by decide +kernel) (by decide +kernel),
   (by decide +kernel : CleanOk 2 _ 1 20),
   trivial⟩

/-- the configuration hypotheses, as one fact -/
theorem C05_example_cfg : (∀ j, (csN j).txn.native = true) ∧ (∀ j, (csN j).txn.receiveOnly = false) ∧
    (∀ i j, i < 2 → j < 2 → (csN i).own = (csN j).own → i = j) ∧ EnvWF envN := by
  refine ⟨fun j => ?_, fun j => ?_, ?_, by decide +kernel⟩
  · unfold csN; split <;> decide +kernel
  · unfold csN; split <;> decide +kernel
  · intro i j hi hj h
    have hi' : i = 0 ∨ i = 1 := by omega
    have hj' : j = 0 ∨ j = 1 := by omega
    rcases hi' with rfl | rfl <;> rcases hj' with rfl | rfl
    · rfl
    · exact absurd h (by decide +kernel)
    · exact absurd h (by decide +kernel)
    · rfl

/-- the state after `common ++ upload`: "b" has told its cleaner that it merged `a@5`; the bucket
    holds `a@5` and `b@14` -/
example :
    ((xrun unaryNaming csN ccfg selCommitted X0 (common ++ upload)).F 1).st.committed = [("a", 5)] ∧
    ((xrun unaryNaming csN ccfg selCommitted X0 (common ++ upload)).bucket.map fun x => (x.inst, x.ts)) =
      [("a", 5), ("b", 14)] ∧
    bucketJoin (xrun unaryNaming csN ccfg selCommitted X0 (common ++ upload)).bucket k1 =
      some ⟨7, false, [65]⟩ := by
  decide +kernel

/-- … and the theorem applies across the cleaner run at 20 (whose `slices.SortFunc` over two
    candidates the kernel cannot evaluate: `List.mergeSort` is defined by well-founded recursion):
    the invariant holds before and after, and the join over the newest snapshots does not
    decrease — whatever the run deletes. -/
example :
    XInv unaryNaming csN 2 (xrun unaryNaming csN ccfg selCommitted X0 (common ++ upload ++ [.clean 1 20])) ∧
    (bucketJoin (xrun unaryNaming csN ccfg selCommitted X0 (common ++ upload)).bucket).le
      (bucketJoin (xrun unaryNaming csN ccfg selCommitted X0 (common ++ upload ++ [.clean 1 20])).bucket) := by
  obtain ⟨_, h2, h3⟩ := C05_loop_fleet_join_monotone_partial unaryNaming csN ccfg 2 C05_example_cfg.1
    C05_example_cfg.2.1 C05_example_cfg.2.2.1 (fun _ => envN) (fun _ => C05_example_cfg.2.2.2)
    (common ++ upload) [.clean 1 20] C05_example_runOk
  exact ⟨h2, h3⟩

end FleetExample

end Ls.C05
