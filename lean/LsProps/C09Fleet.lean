import LsLemmas.LoopPublish
import LsProps.C09
import LsProps.C03
import LsProps.C01Loop
/-
  C03 / C09 at CONTENT level, for fleets of native-mode sync loops (LsLemmas/LoopAbs.lean,
  product fleet of LsLemmas/LoopBound.lean): the transaction-id bookkeeping theorems
  (`C03_I1_partial`, `C09_I2_partial`) read as statements about logical content (`absEnv`,
  `absSnap`). Helper lemmas: LsLemmas/LoopPublish.lean. Property theorems only.

  Vocabulary: `RelN` — the simulation relation of `C01_loop_fleet_refines_native` (environments
  `EnvWF`, one bucket of `SnapOk` blobs); `LoopRunOkN` / `PRunOk` — its side conditions (`PRunOk`
  adds that every event belongs to an instance `< n`); `PS`, `prun`, `pinit` — the loop fleet with
  CONTENT ghosts `PG` per instance, parallel to the id ghosts of LsLemmas/LoopGhost.lean:
  `allW` (every recorded application write: transaction id, key, version), `unpubW`, `inflightW`,
  `publishedW` (recorded before the dump of a STORED blob began), `dumpEnv` / `storedEnv` (the
  environment at the moment the latest dump / the dump of the latest stored own blob began);
  `lastOwn B own` — the most recently stored blob of `own` in the bucket; `blobDB w = absSnap w.snap`;
  `Below v k D` — `D` holds for key `k` the version `v` or one that wins against it
  (`join (some v) (D k) = D k`).
-/
namespace Ls.C09
open Ls Ls.Lmdb Ls.Txn Ls.SyncLoop Ls.Loop

/-! ## (1) C03 at content level: the content of an instance only grows -/

/-- **The logical content of a native-mode instance only grows.** Along every admissible schedule
    of the fleet — segments with any receiver answers, store failures and clock readings,
    application puts, listings; the D9 race windows included, no race hypothesis — `absEnv` of
    every instance at the end holds, for every key, a version at least as new (last-writer-wins)
    as at the start: every event leaves it unchanged, joins a snapshot into it (`LoadOnce`), or
    applies a non-losing write. -/
theorem C03_loop_fleet_content_monotone_native (cs : Nat → LoopCfg)
    (hn : ∀ j, (cs j).txn.native = true) (F : Fleet) (A : Abs.Fleet) (hrel : RelN cs F A)
    (evs : List (Nat × Ev)) (hok : LoopRunOkN cs F evs) (j : Nat) :
    (absEnv (F j).st.env).le (absEnv (fleetRun cs F evs j).st.env) :=
  absEnv_mono_run cs hn evs F A hrel hok j

/-- **A committed local application write is never destroyed by syncing (native mode, every
    schedule).** Once instance `j` has committed the put of version `verOf val` under `(name, key)`
    (an application event satisfying `LoopOkN`, with a key LMDB accepts, so that the transaction
    is committed), then at every later moment of the schedule — whatever is merged, uploaded or
    written afterwards, D9 windows included — instance `j` holds that version or one that wins
    last-writer-wins against it. (`C03_native` says this per segment and per stored value; here
    it is the content-level statement along whole schedules of the fleet.) -/
theorem C03_loop_fleet_write_survives_native (cs : Nat → LoopCfg)
    (hn : ∀ j, (cs j).txn.native = true) (F : Fleet) (A : Abs.Fleet) (hrel : RelN cs F A)
    (pre post : List (Nat × Ev)) (j : Nat) (name key val : Bytes) (hbk : badKey key = false)
    (hok : LoopRunOkN cs F (pre ++ (j, .app [.put name key val]) :: post)) :
    join (some (verOf val))
        (absEnv (fleetRun cs F (pre ++ (j, .app [.put name key val]) :: post) j).st.env (name, key)) =
      absEnv (fleetRun cs F (pre ++ (j, .app [.put name key val]) :: post) j).st.env (name, key) :=
  write_survives_native cs hn F A hrel pre post j name key val hbk hok

/-! ## (2) C09 at content level: what the newest own snapshot covers -/

/-- **The newest own snapshot is a complete dump (every schedule, races included).** In every
    state an admissible schedule of `n` native-mode, not receive-only instances with distinct
    names reaches from their start (`pinit`), the most recently stored blob `w` of instance `j`
    in the bucket has exactly the logical content `j`'s environment had at the moment the dump
    transaction of `w` ran (`storedEnv`), lies below `j`'s present content, and covers every
    application write `j` recorded before that dump transaction (`publishedW`). -/
theorem C09_newest_own_snapshot_is_dump_native (cs : Nat → LoopCfg) (n : Nat)
    (hn : ∀ j, (cs j).txn.native = true) (hro : ∀ j, (cs j).txn.receiveOnly = false)
    (hown : ∀ i j, i < n → j < n → (cs i).own = (cs j).own → i = j)
    (envs : Nat → Env) (hwf : ∀ j, EnvWF (envs j)) (evs : List (Nat × Ev))
    (hok : PRunOk cs n (fun j => G.init (envs j) []) evs) (j : Nat) (hj : j < n) (w : Blob)
    (hw : lastOwn ((prun cs (pinit envs) evs).F 0).bucket (cs j).own = some w) :
    ∃ e, ((prun cs (pinit envs) evs).pg j).storedEnv = some e ∧ blobDB w = absEnv e ∧
      (blobDB w).le (absEnv ((prun cs (pinit envs) evs).F j).st.env) ∧
      ∀ t ∈ ((prun cs (pinit envs) evs).pg j).publishedW, Below t.2.2 t.2.1 (blobDB w) :=
  lastOwn_is_dump (pinv_run cs n hn hro hown evs (pinit envs) (pinv_init cs n envs hwf) hok) hj hw

/-- **At an idle point the newest own snapshot covers every local write, except the most recent
    ones (race-free schedules).** `n` native-mode, not receive-only instances with distinct names,
    started on well-formed environments over an empty bucket; an admissible schedule (`PRunOk`)
    in which no RECORDED application transaction of instance `j` commits inside the race window
    `Racy` (`RaceFree` of `j`'s local schedule: in native mode D9 affects exactly this property,
    `C09_race_content_witness_native`); `j` idles (`pc = sleep`: in particular no store exhausted
    its retry budget — then the loop has ended) and is not in its start-up waiting set. Then every
    application write `t` that `j` ever recorded (`allW`)
    * was recorded before the dump transaction of the newest own blob `w` in the bucket
      (`t ∈ publishedW` — precisely the covered writes), `w` has the content `j`'s environment
      had at that dump, and `w` holds for `t`'s key `t`'s version or one that wins against it; or
    * was recorded after the `beforeInfo` step of the iteration that just ended (`sinceInfo`):
      the next iteration finds `lastTxn > lastSynced` and uploads (`C09_I2_ids`).
    The invariant behind it is I2 (`C09_I2_partial`: `Inv0.cover`, `Inv0.inflight`, and `Fresh`
    from `Inv1` at `sleep`); `Calm` at `sleep` alone does not give it.
    `_partial`: besides race-freedom it assumes: native mode, not receive-only, single-put
    application transactions (`LoopOkN`), no blobs from outside the fleet, no restarts. -/
theorem C09_idle_snapshot_covers_writes_native_partial (cs : Nat → LoopCfg) (n : Nat)
    (hn : ∀ j, (cs j).txn.native = true) (hro : ∀ j, (cs j).txn.receiveOnly = false)
    (hown : ∀ i j, i < n → j < n → (cs i).own = (cs j).own → i = j)
    (envs : Nat → Env) (hwf : ∀ j, EnvWF (envs j)) (evs : List (Nat × Ev))
    (hok : PRunOk cs n (fun j => G.init (envs j) []) evs) (j : Nat) (hj : j < n)
    (hrf : RaceFree (cs j) (envs j) [] (localEvs cs (fun j => G.init (envs j) []) evs j))
    (hidle : ((prun cs (pinit envs) evs).F j).st.pc = .sleep)
    (hwait : (cs j).own ∉ ((prun cs (pinit envs) evs).F j).st.waiting) :
    ∀ t ∈ ((prun cs (pinit envs) evs).pg j).allW,
      t.1 ∈ ((prun cs (pinit envs) evs).F j).gh.sinceInfo ∨
      (t ∈ ((prun cs (pinit envs) evs).pg j).publishedW ∧
        ∃ w e, lastOwn ((prun cs (pinit envs) evs).F 0).bucket (cs j).own = some w ∧
          ((prun cs (pinit envs) evs).pg j).storedEnv = some e ∧ blobDB w = absEnv e ∧
          join (some t.2.2) (blobDB w t.2.1) = blobDB w t.2.1) :=
  idle_covers cs n hn hro hown envs hwf evs hok j hj hrf hidle hwait

/-! ## (3) the race (finding D9) at content level, native mode -/

namespace FleetWitness
open Ls.Loop.Witness (app)
open Ls.Loop.BoundWitness (hv)
open Ls.C01.LoopExample (seg)
open Ls.C01.LoopExampleN (csN envN)

def F0 : Fleet := fun _ => G.init envN []

/-- "a" (instance 0) writes key 3 and publishes it (blob `a@5`); "b" (instance 1) writes key 1 and
    publishes it (blob `b@11`); "a" merges `b@11` (transaction 2), merges it AGAIN — an empty write
    transaction whose id 3 LMDB hands to the next writer — and right then, at the yield point
    after that empty `LoadOnce` (the race window), a's application commits key 2 and gets id 3;
    the loop takes 3 for its own transaction id, sets `lastSynced := 3 = lastTxn`, finds nothing to
    upload and idles -/
def raceSched : List (Nat × Ev) :=
  [(0, .app [.put app [3] (hv 67)]), (0, seg none 5), (0, seg none 6), (0, seg none 7),
   (1, .app [.put app [1] (hv 65)]), (1, seg none 8), (1, seg none 9), (1, seg none 10),
   (1, seg none 11), (1, seg none 12), (1, seg none 13),
   (0, seg (some ("b", 11)) 20), (0, seg (some ("b", 11)) 21),
   (0, .app [.put app [2] (hv 66)]),
   (0, seg none 22), (0, seg none 23)]

/-- `app` is an application DBI name; the written values are well-formed stored values -/
theorem C09_witness_facts : isPrivate app = false ∧ StoredWF (hv 65) ∧ StoredWF (hv 66) ∧ StoredWF (hv 67) := by
  decide +kernel

/-- every side condition of `C09_idle_snapshot_covers_writes_native_partial` except race-freedom
    holds for the schedule -/
theorem C09_witness_runOk : PRunOk csN 2 F0 raceSched :=
  ⟨⟨by decide, loopOkN_put C09_witness_facts.1 C09_witness_facts.2.2.2 (by decide +kernel) (by decide +kernel)⟩,
   ⟨by decide, loopOkN_go _ (by decide +kernel) (by decide +kernel)⟩,
   ⟨by decide, loopOkN_go _ (by decide +kernel) (by decide +kernel)⟩,
   ⟨by decide, loopOkN_go _ (by decide +kernel) (by decide +kernel)⟩,
   ⟨by decide, loopOkN_put C09_witness_facts.1 C09_witness_facts.2.1 (by decide +kernel) (by decide +kernel)⟩,
   ⟨by decide, loopOkN_go _ (by decide +kernel) (by decide +kernel)⟩,
   ⟨by decide, loopOkN_go _ (by decide +kernel) (by decide +kernel)⟩,
   ⟨by decide, loopOkN_go _ (by decide +kernel) (by decide +kernel)⟩,
   ⟨by decide, loopOkN_go _ (by decide +kernel) (by decide +kernel)⟩,
   ⟨by decide, loopOkN_go _ (by decide +kernel) (by decide +kernel)⟩,
   ⟨by decide, loopOkN_go _ (by decide +kernel) (by decide +kernel)⟩,
   ⟨by decide, loopOkN_go _ (by decide +kernel) (by decide +kernel)⟩,
   ⟨by decide, loopOkN_go _ (by decide +kernel) (by decide +kernel)⟩,
   ⟨by decide, loopOkN_put C09_witness_facts.1 C09_witness_facts.2.2.1 (by decide +kernel) (by decide +kernel)⟩,
   ⟨by decide, loopOkN_go _ (by decide +kernel) (by decide +kernel)⟩,
   ⟨by decide, loopOkN_go _ (by decide +kernel) (by decide +kernel)⟩,
   trivial⟩

/-- the state after the schedule -/
def PW : PS := prun csN (pinit (fun _ => envN)) raceSched

/-- **D9 at content level (native mode): a committed local write that the newest own snapshot
    does not contain at the next idle point, although no later write happened.** Every side
    condition of `C09_idle_snapshot_covers_writes_native_partial` holds except race-freedom: the
    schedule is admissible (`C09_witness_runOk`), instance "a" idles and is not in its waiting
    set — but a's application transaction 3 (key 2) committed inside the race window `Racy`. At
    the idle point a's content holds key 2 (and keys 1, 3), the write is recorded (`allW`) and is
    neither recent (`sinceInfo` is empty) nor published; the newest own blob of "a" in the bucket
    is still `a@5`, whose content has no version at all for key 2 — the conclusion of the
    theorem fails for that write. (Nothing is destroyed: `C03_loop_fleet_write_survives_native`;
    what is lost is the publication, and it stays lost until the next local write.) -/
theorem C09_race_content_witness_native :
    ¬ RaceFree (csN 0) envN [] (localEvs csN F0 raceSched 0) ∧
    RaceFree (csN 0) envN [] (localEvs csN F0 (raceSched.take 13) 0) ∧
    Racy (fleetRun csN F0 (raceSched.take 13) 0).st ∧
    (PW.F 0).st.pc = .sleep ∧ (csN 0).own ∉ (PW.F 0).st.waiting ∧
    (PW.F 0).st.lastSynced = 3 ∧ (PW.F 0).st.env.lastTxn = 3 ∧
    (PW.pg 0).allW = [(3, (app, [2]), ⟨7, false, [66]⟩), (1, (app, [3]), ⟨7, false, [67]⟩)] ∧
    (PW.pg 0).publishedW = [(1, (app, [3]), ⟨7, false, [67]⟩)] ∧
    (PW.F 0).gh.sinceInfo = [] ∧
    absEnv (PW.F 0).st.env (app, [2]) = some ⟨7, false, [66]⟩ ∧
    ((lastOwn (PW.F 0).bucket (csN 0).own).map fun w => (w.inst, w.ts, blobDB w (app, [2]),
      blobDB w (app, [3]))) = some ("a", 5, none, some ⟨7, false, [67]⟩) := by
  refine ⟨by decide +kernel, by decide +kernel, by decide +kernel, by decide +kernel, by decide +kernel,
    by decide +kernel, by decide +kernel, by decide +kernel, by decide +kernel, by decide +kernel,
    by decide +kernel, by decide +kernel⟩

/-- the same fleet without the race: if a's application writes key 2 one segment later (at
    `beforeInfo`, outside the window), the schedule is race-free, the same iteration uploads, and at
    the idle point the newest own snapshot (`a@24`) holds key 2 -/
def okSched : List (Nat × Ev) :=
  raceSched.take 13 ++
  [(0, seg none 22), (0, .app [.put app [2] (hv 66)]), (0, seg none 23), (0, seg none 24), (0, seg none 25),
   (0, seg none 26)]

example :
    RaceFree (csN 0) envN [] (localEvs csN F0 okSched 0) ∧
    ((prun csN (pinit (fun _ => envN)) okSched).F 0).st.pc = .sleep ∧
    ((lastOwn ((prun csN (pinit (fun _ => envN)) okSched).F 0).bucket (csN 0).own).map fun w =>
      (w.inst, w.ts, blobDB w (app, [2]))) = some ("a", 24, some ⟨7, false, [66]⟩) := by
  refine ⟨by decide +kernel, by decide +kernel, by decide +kernel⟩

end FleetWitness

end Ls.C09
