import LsLemmas.ConcTopicLive
import LsLemmas.ConcToken
import LsLemmas.ConcStorage
import LsModel.Generated
import LsModel.SyncLoop
/-
  C17 — Concurrent components neither race nor deadlock.

  Stated on the small-step models of LsModel/Conc.lean (explicit program counters, mutex owners,
  rendez-vous channels, channel close). A state is a *deadlock* (`Stuck`) when some goroutine is
  unfinished and no step at all is enabled. All theorems hold for every number of goroutines and
  every interleaving: they are consequences of the inductive invariants in
  LsLemmas/ConcTopic.lean, ConcToken.lean, ConcStorage.lean.

  * Topic (utils/topics): one publisher calling `Publish` any number of times, any number of
    subscriber goroutines `Subscribe; (Next | Close)*`, `Close` at any moment and any number of
    times, the subscribers' context cancelled at any moment. The model with `fixed = true` is the
    code after 6c0a76e; `fixed = false` is the code before it and has the deadlock D5.
  * Token (utils/climit): capacity `limit`, `n` goroutines, each any sequence of `Acquire`,
    `Release` of any token acquired so far (its own or not, released already or not), finish.
  * Global storage (snapshot/storage): `nSet` calls of `SetGlobal`, `nGet` calls of `GetGlobal`,
    with a pending writer holding back new readers or not. `fixed = true` is the code after
    9c71a0d; `fixed = false` has the panic D4.
  * Lock discipline: the table regenerated from the Go source by the extractor.

  Cancellation of the sync loop (`C17_cancel_edges`). The sync-loop model LsModel/SyncLoop.lean
  has no blocking step: one `go` runs from one yield point to the next, so there is nothing to
  prove about blocking on it. The real loop blocks at four kinds of places, each of which has a
  cancellation alternative in the current code:
    - `utils.SleepContext(ctx, …)` at the end of an iteration (yield point `loop.sleep`);
    - the sleep between `Store` attempts in `SendOnce` (`SleepContext`; yield points
      `send.afterTxn`, `send.stored`);
    - the start-up "wait for the initial listing" retry (`time.Sleep` before 09f49c2 — finding
      D11 — now `SleepContext` and return; yield point `startup.listingFailed`);
    - `ConcurrencyLimit.Acquire` in the downloaders (released by `Token.Release`, which by
      `C17_token_release` never blocks; the downloader goroutines end with the context).
  That cancelling at each of these points makes `Sync` return is validated on the real code by
  the harness scenarios `conc.cancel` (startup.listingFailed, send.afterTxn, send.stored, loop.top,
  loop.beforeInfo, loop.sleep); on the model the only statement is that an exited loop stays
  exited.
-/
namespace Ls.C17
open Ls Ls.Conc

/-! ## Topic -/

/-- Topic: no deadlock, and the publisher is never wedged. With the current code, for every number
    `k` of subscriber goroutines and every schedule, in every reachable state:
    (1) the state is not a deadlock: if some goroutine is unfinished some step is enabled;
    (2) more precisely some step of a *goroutine* (not the cancellation of the context) is
        enabled, unless the publisher has finished, the context is not cancelled and every
        unfinished subscriber waits in `Next` for a value — the only legitimate waiting, which the
        cancellation ends;
    (3) if the publisher is blocked in `Publish` sending to subscriber `i`, then subscriber `i`
        exists and is at distance `d ≤ 4` (`waitDist`) from releasing it: for `d = 0` the delivery
        (subscriber `i` is receiving in `Next`) or the skip (subscriber `i` has executed
        `close(closing)` and waits for the topic mutex) is enabled now; for `d > 0` subscriber `i`
        has an enabled step of its own and each of its enabled steps lowers `d` and leaves the
        publisher where it is — whether it goes on to receive or starts to `Close`;
    (4) the number of subscribers the current `Publish` call still has to serve is at most `k`. -/
theorem C17_topic_no_wedge (k : Nat) {s : Topic.St} (h : Topic.Reach true k s) :
    ¬ Topic.Stuck s ∧
    (¬ Topic.allDone s → (∃ a, a ≠ Topic.Step.cancel ∧ Topic.guard s a = true) ∨ Topic.Quiescent s) ∧
    (∀ i todo, s.pub = .sending i todo → ∃ sb, s.subs[i]? = some sb ∧ Topic.waitDist sb.pc ≤ 4 ∧
      (Topic.waitDist sb.pc = 0 →
        Topic.guard s .pubDeliver = true ∨ Topic.guard s .pubSkip = true) ∧
      (0 < Topic.waitDist sb.pc → (∃ a, Topic.guard s (.sub i a) = true) ∧
        ∀ a, Topic.guard s (.sub i a) = true →
          ∃ sb', (Topic.next s (.sub i a)).subs[i]? = some sb' ∧
            Topic.waitDist sb'.pc < Topic.waitDist sb.pc ∧
            (Topic.next s (.sub i a)).pub = .sending i todo)) ∧
    Topic.pubRemaining s.pub ≤ k := by
  have hinv := Topic.inv_reach h
  have hfix := Topic.fixed_reach h
  refine ⟨Topic.not_stuck hinv hfix, Topic.progress hinv hfix, ?_, hinv.rem⟩
  intro i todo hp
  obtain ⟨sb, hi, h0, h1⟩ := Topic.blocked_measure hinv hfix hp
  refine ⟨sb, hi, ?_, h0, h1⟩
  cases sb.pc <;> simp [Topic.waitDist]

/-- Topic: a `Publish` call makes at most |subscribers| deliveries or skips. In every reachable
    state in which the publisher is inside `Publish` (it holds the topic mutex), no enabled step
    of anybody increases the number of subscribers still to be served, every delivery and every
    skip lowers it by exactly one, and a step other than the completion of the blocked send or a
    step of the subscriber the publisher is blocked on changes neither the publisher nor that
    subscriber. Together with `C17_topic_no_wedge` (the count starts at most at `k`, a blocked
    send is released after at most four steps of the subscriber concerned): every `Publish`
    returns provided the subscriber it is blocked on is scheduled. -/
theorem C17_topic_publish_bounded (k : Nat) {s : Topic.St} (_h : Topic.Reach true k s) (a : Topic.Step)
    (hg : Topic.guard s a = true) (hin : Topic.pubHolds s.pub = true) :
    Topic.pubRemaining (Topic.next s a).pub ≤ Topic.pubRemaining s.pub ∧
    ((a = .pubDeliver ∨ a = .pubSkip) →
      Topic.pubRemaining (Topic.next s a).pub + 1 = Topic.pubRemaining s.pub) ∧
    (∀ i todo, s.pub = .sending i todo → a ≠ .pubDeliver → a ≠ .pubSkip → a ≠ .pubSendClosed →
      (∀ b, a ≠ .sub i b) →
      (Topic.next s a).pub = s.pub ∧ (Topic.next s a).subs[i]? = s.subs[i]?) :=
  ⟨(Topic.remaining_step a hg hin).1, (Topic.remaining_step a hg hin).2,
   fun _ _ hp h1 h2 h3 h4 => Topic.blocked_stable hp a hg h1 h2 h3 h4⟩

/-- Topic, the code before 6c0a76e deadlocks (finding D5). With one subscriber there is a
    reachable deadlock of the old code (`Publish` sends unconditionally while holding the topic
    mutex, `Close` does not announce itself): the publisher is blocked in the send to subscriber 0
    holding the topic mutex, subscriber 0 is inside `Close` (holding its own mutex) waiting for the
    topic mutex, the context is already cancelled, and no step is enabled. The schedule:
    subscribe; `Publish` takes the mutex and starts the send; the subscriber calls `Close`. -/
theorem C17_topic_deadlock_witness_old :
    ∃ s, Topic.Reach false 1 s ∧ Topic.Stuck s ∧ s.pub = .sending 0 [] ∧ s.tmu = some .pub ∧
      s.cancelled = true ∧ (s.subs[0]?).map (·.pc) = some .cLockT ∧ (s.subs[0]?).map (·.smu) = some true := by
  let sched : List Topic.Step :=
    [.sub 0 .subLock, .sub 0 .subInsert, .pubCall, .pubLock, .pubPick 0, .cancel,
     .sub 0 .closeCall, .sub 0 .lockS, .sub 0 .check]
  have hrun : Topic.run (Topic.init false 1) sched =
      some { fixed := false, tmu := some .pub, cancelled := true, pub := .sending 0 [],
             subs := [{ pc := .cLockT, smu := true, topicNil := false, inMap := true }] } := by decide
  refine ⟨_, Topic.reach_run Topic.Reach.init sched hrun, ⟨by decide, ?_⟩, rfl, rfl, rfl, rfl, rfl⟩
  intro a
  cases a with
  | sub i b =>
    cases i with
    | zero => cases b <;> rfl
    | succ n => simp [Topic.guard]
  | pubPick i => rfl
  | _ => rfl

/-- Topic: the publisher never sends on a closed channel and nothing is closed twice. For both
    versions of the code, every `k` and every schedule, in every reachable state: the publisher
    has not panicked and the panicking send is not enabled; if the publisher is blocked sending to
    subscriber `i` then `i`'s channel is open (it is closed only under the topic mutex, which
    `Publish` holds while it sends, and only together with the removal from the map); and for
    every subscription `close(closing)` and `close(ch)` have each been executed at most once —
    exactly as often as the respective channel is closed. -/
theorem C17_topic_no_send_on_closed (fixed : Bool) (k : Nat) {s : Topic.St} (h : Topic.Reach fixed k s) :
    s.pub ≠ .panic ∧ Topic.guard s .pubSendClosed = false ∧
    (∀ i todo, s.pub = .sending i todo → ∃ sb, s.subs[i]? = some sb ∧ sb.chClosed = false) ∧
    (∀ sb ∈ s.subs, sb.nClosing ≤ 1 ∧ sb.nCh ≤ 1 ∧ sb.nClosing = sb.closing.toNat ∧
      sb.nCh = sb.chClosed.toNat) := by
  have hinv := Topic.inv_reach h
  refine ⟨hinv.noPanic, ?_, ?_, ?_⟩
  · cases hp : s.pub <;> simp [Topic.guard, hp]
    rename_i i todo
    obtain ⟨sb, hi, _, hc, _⟩ := Topic.blocked_on hinv hp
    simp [hi, hc]
  · intro i todo hp
    obtain ⟨sb, hi, _, hc, _⟩ := Topic.blocked_on hinv hp
    exact ⟨sb, hi, hc⟩
  · intro sb hsb
    obtain ⟨i, hi⟩ := List.mem_iff_getElem?.mp hsb
    obtain ⟨h1, h2⟩ := Topic.subOk_counts (hinv.loc i sb hi)
    refine ⟨?_, ?_, h1, h2⟩
    · rw [h1]; cases sb.closing <;> simp
    · rw [h2]; cases sb.chClosed <;> simp

/-! ## Token -/

/-- Token: `Release` from any goroutine, any number of times, never blocks and returns each token
    once. For every capacity `limit`, every number `n` of goroutines and every interleaving of
    their `Acquire`s and `Release`s (of any token handed out so far, whoever acquired it, released
    already or not), in every reachable state:
    (1) channel contents plus tokens for which nothing has been sent back equals `limit`
        (so the channel never overflows);
    (2) a goroutine at the send inside `Release` finds room in the channel: the send is enabled;
    (3) a goroutine waiting for a token's mutex either gets it now or the goroutine holding it
        has an enabled step; a goroutine holding it always has one;
    (4) no deadlock caused by `Release`: if some goroutine is unfinished then some step is
        enabled, unless every unfinished goroutine is blocked in `Acquire` on an empty channel
        (all `limit` tokens are out and nobody is left to release them: the callers broke
        "a Token MUST be released"; with `limit = 0` excluded by `New`);
    (5) for every token at most one value was sent back, a released token has exactly one, and
        while its mutex is free "released" and "sent back" agree;
    (6) at the end — whenever every token handed out is released — the channel is full again:
        `free = limit`. -/
theorem C17_token_release (limit n : Nat) {s : Token.St} (h : Token.Reach limit n s) :
    s.free + Token.unsent s.toks = s.limit ∧
    (∀ g t, s.gs[g]? = some (.rSend t) → s.free < s.limit ∧ Token.guard s ⟨g, .send⟩ = true) ∧
    (∀ g t, s.gs[g]? = some (.rLock t) → Token.guard s ⟨g, .lock⟩ = true ∨
      ∃ g' a, Token.tokMu s t = some (some g') ∧ Token.guard s ⟨g', a⟩ = true) ∧
    (¬ Token.allDone s → (∃ x, Token.guard s x = true) ∨ Token.Starved s) ∧
    (∀ tk ∈ s.toks, tk.nSends ≤ 1 ∧ (tk.released = true → tk.nSends = 1) ∧
      (tk.mu = none → tk.nSends = tk.released.toNat)) ∧
    ((∀ tk ∈ s.toks, tk.released = true) → s.free = s.limit) := by
  have hinv := Token.inv_reach h
  refine ⟨hinv.cnt, ?_, fun g t hg => Token.lock_wait hinv hg, Token.progress hinv, ?_,
    Token.all_released hinv⟩
  · intro g t hg
    have := Token.send_room hinv hg
    exact ⟨this, by simp [Token.guard, hg, Token.actGuard, this]⟩
  · intro tk htk
    obtain ⟨t, ht⟩ := List.mem_iff_getElem?.mp htk
    exact Token.tok_counts hinv ht

/-- Token: a goroutine that is neither finished nor inside `Acquire` — in particular one anywhere
    inside `Release` — guarantees that the system is not stuck. -/
theorem C17_token_release_not_stuck (limit n : Nat) {s : Token.St} (h : Token.Reach limit n s)
    {g : Nat} {pc : Token.GPc} (hg : s.gs[g]? = some pc) (h1 : pc ≠ .done) (h2 : pc ≠ .acquiring) :
    ¬ Token.Stuck s := by
  intro ⟨_, hno⟩
  obtain ⟨x, hx⟩ := Token.active_progress (Token.inv_reach h) hg h1 h2
  rw [hno x] at hx; cases hx

/-! ## Global storage -/

/-- Global storage: `GetGlobal` returns the handle, whenever it is called. With the current code,
    for both readings of the RWMutex (a pending writer holds back new readers or not), any number
    `nGet` of `GetGlobal` calls and any number `nSet` of `SetGlobal` calls in any interleaving, in
    every reachable state:
    (1) once there is at least one `SetGlobal` call the state is not a deadlock (without one the
        getters wait, as documented);
    (2) no `GetGlobal` is at the panic;
    (3) every `GetGlobal` that has returned holds the (non-nil) handle that was set;
    (4) `close(ready)` has been executed at most once, and the storage being set implies that
        `ready` is closed. -/
theorem C17_storage_get (wpref : Bool) (nSet nGet : Nat) {s : Storage.St}
    (h : Storage.Reach true wpref nSet nGet s) :
    (0 < nSet → ¬ Storage.Stuck s) ∧
    (∀ pc ∈ s.getters, pc ≠ .panic) ∧
    (∀ v, Storage.GPc.done v ∈ s.getters → v = true) ∧
    s.nClose ≤ 1 ∧ (s.stored = true → s.ready = true) := by
  have hinv := Storage.inv_reach h
  obtain ⟨hfix, hlen, _⟩ := Storage.fixed_reach h
  refine ⟨?_, Storage.no_panic hinv hfix, fun v hv => Storage.done_handle hinv hfix hv,
    Storage.close_once hinv, hinv.stRd⟩
  intro hn ⟨hnd, hno⟩
  have hne : s.setters ≠ [] := by
    intro e; rw [e] at hlen; simp at hlen; omega
  obtain ⟨x, hx⟩ := Storage.progress hinv hfix hne hnd
  rw [hno x] at hx; cases hx

/-- Global storage, the code before 9c71a0d panics (finding D4). With the inverted check a
    `GetGlobal` that starts before `SetGlobal` reads nil, waits for `ready`, reads the handle after
    `SetGlobal` has stored it — and reaches the panic. -/
theorem C17_storage_panic_witness_old :
    ∃ s, Storage.Reach false true 1 1 s ∧ s.getters = [.panic] ∧ s.setters = [.done] ∧
      s.stored = true := by
  let sched : List Storage.Step :=
    [.get 0 .rlock1, .get 0 .read1, .get 0 .runlock1, .get 0 .test1,
     .set 0 .call, .set 0 .lock, .set 0 .check, .set 0 .closeReady, .set 0 .store, .set 0 .unlock,
     .get 0 .wake, .get 0 .rlock2, .get 0 .read2, .get 0 .runlock2, .get 0 .test2]
  have hrun : Storage.run (Storage.init false true 1 1) sched =
      some { fixed := false, wpref := true, writer := none, readers := 0, stored := true, ready := true,
             nClose := 1, setters := [.done], getters := [.panic] } := by decide
  exact ⟨_, Storage.reach_run Storage.Reach.init sched hrun, rfl, rfl, rfl⟩

/-! ## Lock discipline -/

/-- Lock discipline. In the table regenerated from the Go source (one row per syntactic access to
    a field declared as guarded by a mutex, in `Receiver`, `cleaner.Worker`, `Topic`,
    `Subscription`, `Token` and the package-level `storage`) every access happens in a region in
    which that mutex is held; and the table is not empty. -/
theorem C17_lock_table :
    (∀ row ∈ Gen.lockTable, row.2.2.2.2.2 = true) ∧ Gen.lockTable ≠ [] := by
  constructor
  · decide
  · decide

/-! ## Cancellation -/

/-- Sync loop: the model has no blocking step (see the head of this file for the blocking points
    of the real loop and how cancellation at them is validated); a loop that has exited — with
    `context canceled` or otherwise — stays exited and leaves the bucket alone. -/
theorem C17_cancel_edges (c : SyncLoop.LoopCfg) (b : SyncLoop.Bucket) (s : SyncLoop.St)
    (i : SyncLoop.In) (e : SyncLoop.Exit) (h : s.pc = .exited e) : SyncLoop.go c b s i = (s, b) := by
  simp [SyncLoop.go, SyncLoop.goRaw, h]

/-! ## Concrete instances -/

/-- two subscribers, current code: subscriber 0 receives the value, subscriber 1 closes while the
    publisher is blocked sending to it; the publisher skips it and everybody finishes -/
example :
    (Topic.run (Topic.init true 2)
      [.sub 0 .subLock, .sub 0 .subInsert, .sub 1 .subLock, .sub 1 .subInsert,
       .pubCall, .pubLock, .pubPick 1, .sub 1 .closeCall, .sub 1 .lockS, .sub 1 .check,
       .sub 1 .closeClosing, .pubSkip, .pubPick 0, .sub 0 .nextCall, .pubDeliver, .pubUnlock,
       .sub 1 .lockT, .sub 1 .unsub, .sub 1 .unlockT, .sub 1 .setNil, .sub 1 .unlockS,
       .sub 1 .closeCall, .sub 1 .lockS, .sub 1 .check, .sub 1 .unlockS, .sub 1 .finish,
       .sub 0 .closeCall, .sub 0 .lockS, .sub 0 .check, .sub 0 .closeClosing, .sub 0 .lockT,
       .sub 0 .unsub, .sub 0 .unlockT, .sub 0 .setNil, .sub 0 .unlockS, .sub 0 .finish,
       .pubFinish]).map (fun s => (decide (Topic.allDone s), s.subs.map (·.got), s.subs.map (·.nCh)))
    = some (true, [1, 0], [1, 1]) := by decide

/-- the schedule of the old deadlock on the current code: after `close(closing)` the skip is
    enabled -/
example :
    (Topic.run (Topic.init true 1)
      [.sub 0 .subLock, .sub 0 .subInsert, .pubCall, .pubLock, .pubPick 0, .cancel,
       .sub 0 .closeCall, .sub 0 .lockS, .sub 0 .check, .sub 0 .closeClosing]).map
      (fun s => Topic.guard s .pubSkip) = some true := by decide

/-- capacity 1, two goroutines: goroutine 0 acquires, both release the same token concurrently;
    one value goes back, the channel is full again -/
example :
    (Token.run (Token.init 1 2)
      [⟨0, .acquireCall⟩, ⟨0, .acquire⟩, ⟨0, .releaseCall 0⟩, ⟨1, .releaseCall 0⟩, ⟨1, .lock⟩,
       ⟨1, .check⟩, ⟨1, .send⟩, ⟨1, .setReleased⟩, ⟨1, .unlock⟩, ⟨0, .lock⟩, ⟨0, .check⟩, ⟨0, .unlock⟩,
       ⟨0, .finish⟩, ⟨1, .finish⟩]).map (fun s => (s.free, s.toks.map (·.nSends), decide (Token.allDone s)))
    = some (1, [1], true) := by decide

/-- while goroutine 1 holds the token's mutex goroutine 0 cannot take it -/
example :
    (Token.run (Token.init 1 2)
      [⟨0, .acquireCall⟩, ⟨0, .acquire⟩, ⟨0, .releaseCall 0⟩, ⟨1, .releaseCall 0⟩, ⟨1, .lock⟩]).map
      (fun s => Token.guard s ⟨0, .lock⟩) = some false := by decide

/-- the schedule of the old panic on the current code: the getter returns the handle -/
example :
    (Storage.run (Storage.init true true 1 1)
      [.get 0 .rlock1, .get 0 .read1, .get 0 .runlock1, .get 0 .test1,
       .set 0 .call, .set 0 .lock, .set 0 .check, .set 0 .closeReady, .set 0 .store, .set 0 .unlock,
       .get 0 .wake, .get 0 .rlock2, .get 0 .read2, .get 0 .runlock2, .get 0 .test2]).map
      (fun s => (s.getters, decide (Storage.allDone s))) = some ([.done true], true) := by decide

/-- a pending writer holds back a new reader (Go's RWMutex), and is itself not blocked -/
example :
    (Storage.run (Storage.init true true 1 2) [.get 0 .rlock1, .set 0 .call]).map
      (fun s => (Storage.guard s (.get 1 .rlock1), Storage.guard s (.set 0 .lock),
                 Storage.guard s (.get 0 .read1))) = some (false, false, true) := by decide

end Ls.C17
