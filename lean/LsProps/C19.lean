import LsLemmas.StrategyIter3
/-
  C19 — Update strategies apply exactly the iterator's decisions, in the DBI's key order.
  Model: LsModel/Lmdb.lean (abstract DBI), LsModel/Strategy.lean (strategy.Update, IterUpdate with
  iterBoth, EmptyPut). Specification: LsModel/StrategySpec.lean. Property theorems only.
-/
namespace Ls.C19
open Ls Ls.Lmdb Ls.Strategy

variable {E ε : Type}

/-! ## 1. the DBI's key order -/

/-- The comparison of a DBI (byte-wise, or MDB_INTEGERKEY) is a strict total preorder on keys:
    a key is equivalent to itself, the sign is antisymmetric, `<` and equivalence are transitive,
    any two keys are comparable, and equivalent keys compare identically with every other key. -/
theorem C19_cmp_preorder (ik : Bool) :
    (∀ a, kcmp ik a a = 0) ∧
    (∀ a b, kcmp ik a b < 0 ↔ 0 < kcmp ik b a) ∧
    (∀ a b, kcmp ik a b = 0 ↔ kcmp ik b a = 0) ∧
    (∀ a b c, kcmp ik a b < 0 → kcmp ik b c < 0 → kcmp ik a c < 0) ∧
    (∀ a b c, kcmp ik a b = 0 → kcmp ik b c = 0 → kcmp ik a c = 0) ∧
    (∀ a b, kcmp ik a b < 0 ∨ kcmp ik a b = 0 ∨ 0 < kcmp ik a b) ∧
    (∀ a b c, kcmp ik a b = 0 → kcmp ik a c = kcmp ik b c ∧ kcmp ik c a = kcmp ik c b) :=
  ⟨kcmp_refl ik, kcmp_lt_iff_gt ik, kcmp_eq_comm ik, fun _ _ _ => kcmp_lt_trans ik,
   fun _ _ _ => kcmp_eq_trans ik, kcmp_tri ik,
   fun _ _ c h => ⟨kcmp_congr_left ik c h, kcmp_congr_right ik c h⟩⟩

/-- On a byte-wise DBI the order is the lexicographic order of the key bytes and equivalence is
    equality. -/
theorem C19_cmp_bytes (a b : Bytes) :
    (kcmp false a b < 0 ↔ a < b) ∧ (kcmp false a b = 0 ↔ a = b) ∧ (0 < kcmp false a b ↔ b < a) :=
  bcmp_spec a b

/-- On an integer-key DBI with uniform 4-byte (likewise 8-byte) keys the order is the unsigned
    little-endian numeric order, and equivalence is equality of keys (injective). -/
theorem C19_cmp_int (a b : Bytes) (h : (a.length = 4 ∧ b.length = 4) ∨ (a.length = 8 ∧ b.length = 8)) :
    (kcmp true a b < 0 ↔ leNat a < leNat b) ∧ (kcmp true a b = 0 ↔ a = b) ∧
    (0 < kcmp true a b ↔ leNat b < leNat a) := by
  rcases h with ⟨ha, hb⟩ | ⟨ha, hb⟩
  · exact kcmp_int_spec (Or.inl ha) (by omega)
  · exact kcmp_int_spec (Or.inr (Or.inl ha)) (by omega)

/-! ## 2. map algebra of a sorted DBI -/

/-- `put` and `del` keep the DBI strictly sorted. -/
theorem C19_sorted_preserved (ik : Bool) (db : KVs) (k v : Bytes) (hs : Sorted ik db) :
    Sorted ik (put ik db k v) ∧ Sorted ik (del ik db k).1 :=
  ⟨sorted_put hs k v, sorted_del hs k⟩

/-- Read-after-write: after `put k v` the key (and every key equivalent to it) reads `v`, every
    other key reads what it read before. Holds for any list. -/
theorem C19_get_put (ik : Bool) (db : KVs) (k v k' : Bytes) :
    get ik (put ik db k v) k' = if kcmp ik k k' = 0 then some v else get ik db k' :=
  get_put ik db k v k'

/-- Read-after-delete on a sorted DBI; the flag `del` returns says whether the key was stored. -/
theorem C19_get_del (ik : Bool) (db : KVs) (k k' : Bytes) (hs : Sorted ik db) :
    get ik (del ik db k).1 k' = (if kcmp ik k k' = 0 then none else get ik db k') ∧
    (del ik db k).2 = (get ik db k).isSome :=
  ⟨get_del hs k k', del_snd ik db k⟩

/-- Writing what is stored changes nothing: an identical put leaves the (sorted) list unchanged, and
    so does deleting an absent key. -/
theorem C19_put_del_noop (ik : Bool) (db : KVs) (k : Bytes) (hs : Sorted ik db) :
    (∀ v, get ik db k = some v → put ik db k v = db) ∧
    (get ik db k = none → (del ik db k).1 = db ∧ (del ik db k).2 = false) :=
  ⟨fun _ h => put_of_get_some hs h,
   fun h => ⟨del_of_get_none h, by rw [del_snd, h]; rfl⟩⟩

/-- The map update the specifications use (`applyOpt`: put a value / delete on `none`) on a sorted
    DBI: sortedness is kept, the key reads the decision, other keys are untouched, and the content
    is unchanged iff the decision is what was stored. -/
theorem C19_applyOpt (ik : Bool) (db : KVs) (k : Bytes) (ov : Option Bytes) (hs : Sorted ik db) :
    Sorted ik (applyOpt ik db k ov) ∧
    (∀ k', get ik (applyOpt ik db k ov) k' = if kcmp ik k k' = 0 then ov else get ik db k') ∧
    (applyOpt ik db k ov = db ↔ ov = get ik db k) :=
  ⟨sorted_applyOpt hs k ov, get_applyOpt hs k ov, applyOpt_eq_iff hs k ov⟩

/-! ## 3. strategy.Update -/

/-- `strategy.Update`, exactly: for every iterator, every sorted stored content and every input
    (any order, duplicate keys allowed) whose keys are non-empty, `Update` is the left fold of the
    specification step `specUpdStep`: look up the key, ask the iterator, apply the decision
    (`applyOpt … (setNew …)`, i.e. the equality-skip of `setNewVal` never changes the content);
    fail with the iterator's error, or with `badKey` when a decision that changes the content has
    to put a key longer than 511 bytes; the dirty bit is set exactly by the steps that change the
    content. -/
theorem C19_update_exact (ik : Bool) (it : Iter E ε) (db : KVs) (d : Bool) (input : List E)
    (hs : Sorted ik db) (hk : ∀ e ∈ input, (it.key e).length ≠ 0) :
    update ik it ⟨db, d⟩ input = input.foldlM (specUpdStep ik it) ⟨db, d⟩ :=
  update_eq_spec it input (s := ⟨db, d⟩) hs hk

/-- `strategy.Update` against the pure specification `specUpdate`, non-empty keys of any length:
    a successful run returns exactly the content `specUpdate` computes; a failure is the
    iterator's error at which `specUpdate` fails too, or LMDB's refusal (`badKey`) of an input key
    longer than 511 bytes. No other error (not sorted, hang, panic) is possible. -/
theorem C19_update_sound (ik : Bool) (it : Iter E ε) (db : KVs) (d : Bool) (input : List E)
    (hs : Sorted ik db) (hk : ∀ e ∈ input, (it.key e).length ≠ 0) :
    (∀ s', update ik it ⟨db, d⟩ input = .ok s' → specUpdate ik it db input = .ok s'.db) ∧
    (∀ err, update ik it ⟨db, d⟩ input = .error err →
      (∃ x, err = .iter x ∧ specUpdate ik it db input = .error x) ∨
      (err = .badKey ∧ ∃ e ∈ input, (it.key e).length > 511)) := by
  rw [update_eq_spec it input (s := ⟨db, d⟩) hs hk]
  exact ⟨fun s' h => specUpdateS_ok it input h, fun err h => specUpdateS_err it input h⟩

/-- `strategy.Update` with keys of 1..511 bytes fails iff `specUpdate` fails (with the same
    iterator error) and otherwise returns exactly `specUpdate`'s content. -/
theorem C19_update (ik : Bool) (it : Iter E ε) (db : KVs) (d : Bool) (input : List E)
    (hs : Sorted ik db) (hk : ∀ e ∈ input, (it.key e).length ≠ 0 ∧ (it.key e).length ≤ 511) :
    match specUpdate ik it db input with
    | .ok db' => ∃ d', update ik it ⟨db, d⟩ input = .ok ⟨db', d'⟩
    | .error x => update ik it ⟨db, d⟩ input = .error (.iter x) := by
  rw [update_eq_spec it input (s := ⟨db, d⟩) hs (fun e he => (hk e he).1)]
  exact specUpdateS_short it input ⟨db, d⟩ (fun e he => (hk e he).2)

/-- Pointwise reading of the result of `Update` (`specUpdate`): the result is sorted, and for every
    key `k` its value is the left fold, over the input entries whose key is `k` (in input order),
    of "ask the iterator with the current value, empty/nil decision removes the key", starting
    from the stored value. In particular keys that do not occur in the input keep their value. -/
theorem C19_update_pointwise (ik : Bool) (it : Iter E ε) (db db' : KVs) (input : List E)
    (hs : Sorted ik db) (h : specUpdate ik it db input = .ok db') :
    Sorted ik db' ∧
    (∀ k, (input.filter (fun e => kcmp ik (it.key e) k = 0)).foldlM
        (fun cur e => do let v ← it.merge e (cur.getD []); pure (setNew v)) (get ik db k)
        = .ok (get ik db' k)) ∧
    (∀ k, (∀ e ∈ input, kcmp ik (it.key e) k ≠ 0) → get ik db' k = get ik db k) := by
  refine ⟨specUpdate_sorted it input hs h, fun k => specUpdate_get it input k hs h, ?_⟩
  intro k hk
  have := specUpdate_get it input k hs h
  rw [List.filter_eq_nil_iff.mpr (fun e he => by simpa using hk e he)] at this
  exact (Except.ok.inj this).symm

/-- A no-op merge writes nothing: if every decision is the stored value (or removes an absent
    key) — `setNew decision = get db key` — then `Update` returns the content and the dirty bit
    unchanged, so no LMDB write happened in the transaction. -/
theorem C19_update_noop (ik : Bool) (it : Iter E ε) (db : KVs) (d : Bool) (input : List E)
    (hs : Sorted ik db) (hk : ∀ e ∈ input, (it.key e).length ≠ 0)
    (h : ∀ e ∈ input, ∃ r, it.merge e ((get ik db (it.key e)).getD []) = .ok r ∧
      setNew r = get ik db (it.key e)) :
    update ik it ⟨db, d⟩ input = .ok ⟨db, d⟩ := by
  rw [update_eq_spec it input (s := ⟨db, d⟩) hs hk]
  exact specUpdateS_noop it input ⟨db, d⟩ hs h

/-- The dirty bit of `Update` is sound, for any input and any content: a successful `Update`
    either changed nothing at all (same content, same dirty bit) or left the dirty bit set. So a
    transaction whose dirty bit is still clear has not changed the DBI, and skipping its commit
    is safe. -/
theorem C19_update_dirty (ik : Bool) (it : Iter E ε) (s s' : S) (input : List E)
    (h : update ik it s input = .ok s') : s' = s ∨ s'.dirty = true :=
  update_same_or_dirty input s s' h

/-! ## 4. strategy.IterUpdate -/

/-- `strategy.IterUpdate` for ANY iterator (its decisions may fail): with input keys of 1..511
    bytes strictly increasing in the DBI's order, `iterBoth` never reports `notSorted`, never
    panics and never hangs (the fuel `|input| + |stored| + 1` suffices); it is exactly the left
    fold of the IterUpdate callbacks along the merge-join `plan` of the input with the stored
    entries, so the first failing decision in key order wins. -/
theorem C19_iterupdate_plan (ik : Bool) (it : Iter E ε) (s : S) (input : List E)
    (hs : sortedKeys ik (input.map it.key) = true)
    (hk : ∀ e ∈ input, (it.key e).length ≠ 0 ∧ (it.key e).length ≤ 511) :
    iterUpdate ik it s input = (plan ik it input s.db).foldlM (runAct ik it) s :=
  iterUpdate_plan ik it s input ((isorted_iff ik it input).mpr hs) hk

/-- The callbacks of the merge-join are exactly about: a stored entry whose key is not in the
    input (`clean`), an input entry whose key is not stored (`insert`), an input entry together
    with the stored entry of the same key (`both`). -/
theorem C19_iterupdate_plan_sound (ik : Bool) (it : Iter E ε) (db : KVs) (input : List E)
    (hs : sortedKeys ik (input.map it.key) = true) (hD : Sorted ik db) :
    ∀ a ∈ plan ik it input db,
      match a with
      | .clean dk dv => (dk, dv) ∈ db ∧ inInput ik it input dk = false
      | .insert e => e ∈ input ∧ get ik db (it.key e) = none
      | .both e dk dv => e ∈ input ∧ (dk, dv) ∈ db ∧ kcmp ik (it.key e) dk = 0 := by
  intro a ha
  have := plan_mem input db ((isorted_iff ik it input).mpr hs) hD a ha
  cases a <;> exact this

/-- … and every input entry and every stored entry is handled by one of them. -/
theorem C19_iterupdate_plan_complete (ik : Bool) (it : Iter E ε) (db : KVs) (input : List E) :
    (∀ e ∈ input, Act.insert e ∈ plan ik it input db ∨ ∃ dk dv, Act.both e dk dv ∈ plan ik it input db) ∧
    (∀ p ∈ db, Act.clean p.1 p.2 ∈ plan ik it input db ∨ ∃ e, Act.both e p.1 p.2 ∈ plan ik it input db) :=
  plan_complete ik it input db

/-- With failing decisions allowed: for sorted input, valid input keys and a sorted DBI with valid
    stored keys, the only possible failure of `IterUpdate` is an error returned by the iterator. -/
theorem C19_iterupdate_errors (ik : Bool) (it : Iter E ε) (db : KVs) (d : Bool) (input : List E)
    (hs : sortedKeys ik (input.map it.key) = true)
    (hk : ∀ e ∈ input, (it.key e).length ≠ 0 ∧ (it.key e).length ≤ 511)
    (hD : Sorted ik db) (hDK : ∀ p ∈ db, badKey p.1 = false) :
    (∃ s', iterUpdate ik it ⟨db, d⟩ input = .ok s') ∨ (∃ x, iterUpdate ik it ⟨db, d⟩ input = .error (.iter x)) := by
  cases h : iterUpdate ik it ⟨db, d⟩ input with
  | ok s' => exact Or.inl ⟨s', rfl⟩
  | error err =>
    obtain ⟨y, hy⟩ := iterUpdate_err (ik := ik) (it := it) ⟨db, d⟩ input ((isorted_iff ik it input).mpr hs) hk hD hDK err h
    exact Or.inr ⟨y, by rw [hy]⟩

/-- `strategy.IterUpdate`, main statement. If the decisions IterUpdate consults for this input and
    content do not fail (`LocalTotal`: `Merge(nil)` for every input entry, `Merge(stored)` for every
    input entry whose key is stored, `Clean(stored)` for every stored entry whose key is not in the
    input; the iterator may fail anywhere else), the DBI is sorted with stored keys of 1..511 bytes,
    and the input keys have 1..511 bytes and are strictly increasing in the DBI's order, then
    `IterUpdate` succeeds (no `hang`, `panic`, `notSorted`, `badKey`) with exactly the content
    `specIterUpdate` computes (both key orders), which is sorted and reads pointwise:
    an input entry's key holds its merge decision on the stored value (empty/nil = removed);
    a stored key not in the input holds its clean decision (`none` = removed, `some []` = stored
    empty); every other key is absent. -/
theorem C19_iterupdate (ik : Bool) (it : Iter E ε) (mg : E → Bytes → Option Bytes) (cl : Bytes → Option Bytes)
    (db : KVs) (d : Bool) (input : List E)
    (hL : LocalTotal ik it mg cl input db)
    (hs : sortedKeys ik (input.map it.key) = true)
    (hk : ∀ e ∈ input, (it.key e).length ≠ 0 ∧ (it.key e).length ≤ 511)
    (hD : Sorted ik db) (hDK : ∀ p ∈ db, badKey p.1 = false) :
    ∃ db' d', iterUpdate ik it ⟨db, d⟩ input = .ok ⟨db', d'⟩ ∧
      specIterUpdate ik it db input = .ok db' ∧
      Sorted ik db' ∧
      (∀ e ∈ input, get ik db' (it.key e) = setNew (mg e ((get ik db (it.key e)).getD []))) ∧
      (∀ k v, inInput ik it input k = false → get ik db k = some v → get ik db' k = cl v) ∧
      (∀ k, inInput ik it input k = false → get ik db k = none → get ik db' k = none) := by
  have hS := (isorted_iff ik it input).mpr hs
  obtain ⟨d', h1, h2⟩ := iterUpdate_main db d input hL hS hk hD hDK
  refine ⟨_, d', h1, h2, sorted_joinOut mg cl input db hS hD, ?_, ?_, ?_⟩
  · intro e he
    rw [get_joinOut mg cl (it.key e) input db hS hD, lookupI_of_mem hS he]
  · intro k v hin hg
    rw [get_joinOut mg cl k input db hS hD, lookupI_none_of_inInput hin, hg]; rfl
  · intro k hin hg
    rw [get_joinOut mg cl k input db hS hD, lookupI_none_of_inInput hin, hg]; rfl

/-- For ANY iterator (decisions may fail): whenever `IterUpdate` succeeds (sorted input, valid
    keys, sorted DBI with valid stored keys), every decision it consulted succeeded and its result
    is exactly the content `specIterUpdate` computes. Together with `C19_iterupdate_errors`:
    IterUpdate returns an iterator error, or exactly the specified content. -/
theorem C19_iterupdate_ok (ik : Bool) (it : Iter E ε) (db : KVs) (d : Bool) (input : List E) (s' : S)
    (hs : sortedKeys ik (input.map it.key) = true)
    (hk : ∀ e ∈ input, (it.key e).length ≠ 0 ∧ (it.key e).length ≤ 511)
    (hD : Sorted ik db) (hDK : ∀ p ∈ db, badKey p.1 = false)
    (h : iterUpdate ik it ⟨db, d⟩ input = .ok s') :
    specIterUpdate ik it db input = .ok s'.db ∧ Sorted ik s'.db ∧
    LocalTotal ik it (mgOf it) (clOf it) input db := by
  have hS := (isorted_iff ik it input).mpr hs
  have hL := localTotal_of_ok db d input s' hS hk hD h
  obtain ⟨d', h1, h2⟩ := iterUpdate_main db d input hL hS hk hD hDK
  rw [h1] at h
  cases h
  exact ⟨h2, sorted_joinOut _ _ input db hS hD, hL⟩

/-- The dirty bit of `IterUpdate` is sound: a successful run either changed nothing at all (same
    content, same dirty bit) or left the dirty bit set. -/
theorem C19_iterupdate_dirty (ik : Bool) (it : Iter E ε) (s s' : S) (input : List E)
    (hs : sortedKeys ik (input.map it.key) = true)
    (hk : ∀ e ∈ input, (it.key e).length ≠ 0 ∧ (it.key e).length ≤ 511)
    (h : iterUpdate ik it s input = .ok s') : s' = s ∨ s'.dirty = true := by
  rw [iterUpdate_plan ik it s input ((isorted_iff ik it input).mpr hs) hk] at h
  exact runPlan_same_or_dirty _ s s' h

/-- The same for an iterator whose decisions never fail, in terms of the iterator itself:
    for `e` in the input, `get db' (key e) = setNew r` where `Merge(e, stored or nil) = r`; for a
    stored `(k, v)` with `k` not in the input, `get db' k = r` where `Clean(v) = r`. -/
theorem C19_iterupdate_total (ik : Bool) (it : Iter E ε) (db : KVs) (d : Bool) (input : List E)
    (hm : ∀ e o, ∃ r, it.merge e o = .ok r) (hc : ∀ v, ∃ r, it.clean v = .ok r)
    (hs : sortedKeys ik (input.map it.key) = true)
    (hk : ∀ e ∈ input, (it.key e).length ≠ 0 ∧ (it.key e).length ≤ 511)
    (hD : Sorted ik db) (hDK : ∀ p ∈ db, badKey p.1 = false) :
    ∃ db' d', iterUpdate ik it ⟨db, d⟩ input = .ok ⟨db', d'⟩ ∧
      specIterUpdate ik it db input = .ok db' ∧
      Sorted ik db' ∧
      (∀ e ∈ input, ∃ r, it.merge e ((get ik db (it.key e)).getD []) = .ok r ∧
        get ik db' (it.key e) = setNew r) ∧
      (∀ k v, inInput ik it input k = false → get ik db k = some v →
        ∃ r, it.clean v = .ok r ∧ get ik db' k = r) ∧
      (∀ k, inInput ik it input k = false → get ik db k = none → get ik db' k = none) := by
  have T := total_of_nofail it hm hc
  obtain ⟨db', d', h1, h2, h3, h4, h5, h6⟩ :=
    C19_iterupdate ik it (mgOf it) (clOf it) db d input (T.local input db) hs hk hD hDK
  exact ⟨db', d', h1, h2, h3, fun e he => ⟨_, T.merge e _, h4 e he⟩,
    fun k v hin hg => ⟨_, T.clean v, h5 k v hin hg⟩, h6⟩

/-- Unsorted input is refused: if the input keys (1..511 bytes) are NOT strictly increasing in the
    DBI's order, the decisions do not fail and the stored keys are valid, `IterUpdate` returns
    `ErrNotSorted` (whatever was applied before the offending key is discarded with the
    transaction). -/
theorem C19_iterupdate_unsorted (ik : Bool) (it : Iter E ε) (db : KVs) (d : Bool) (input : List E)
    (hm : ∀ e o, ∃ r, it.merge e o = .ok r) (hc : ∀ v, ∃ r, it.clean v = .ok r)
    (hs : sortedKeys ik (input.map it.key) = false)
    (hk : ∀ e ∈ input, (it.key e).length ≠ 0 ∧ (it.key e).length ≤ 511)
    (hDK : ∀ p ∈ db, badKey p.1 = false) :
    iterUpdate ik it ⟨db, d⟩ input = .error .notSorted :=
  iterUpdate_unsorted (total_of_nofail it hm hc) ⟨db, d⟩ input hk hDK
    (fun h => by rw [(isorted_iff ik it input).mp h] at hs; cases hs)

/-- A no-op IterUpdate writes nothing: if for every input entry whose key is stored (with a
    non-empty value `v`) the merge decision is `v` itself and the preliminary `Merge(nil)` call
    does not fail, for every input entry whose key is absent the decision is nil or empty, and
    every clean decision (stored keys not in the input) is the stored value, then the result is
    the same content with the dirty bit unchanged — no LMDB write happened. -/
theorem C19_iterupdate_noop (ik : Bool) (it : Iter E ε) (db : KVs) (d : Bool) (input : List E)
    (hs : sortedKeys ik (input.map it.key) = true)
    (hk : ∀ e ∈ input, (it.key e).length ≠ 0 ∧ (it.key e).length ≤ 511)
    (hD : Sorted ik db)
    (hM : ∀ e ∈ input,
      match get ik db (it.key e) with
      | some dv => dv ≠ [] ∧ it.merge e dv = .ok (some dv) ∧ ∃ r, it.merge e [] = .ok r
      | none => ∃ r, it.merge e [] = .ok r ∧ setNew r = none)
    (hC : ∀ p ∈ db, inInput ik it input p.1 = false → it.clean p.2 = .ok (some p.2)) :
    iterUpdate ik it ⟨db, d⟩ input = .ok ⟨db, d⟩ :=
  iterUpdate_noop db d input ((isorted_iff ik it input).mpr hs) hk hD hM hC

/-! ## 5. strategy.EmptyPut -/

/-- `strategy.EmptyPut` on an ordinary DBI: the result does not depend on the previous content,
    it is always dirty (the drop is recorded), and it is exactly the input's non-empty decisions
    on an empty DBI (`specEmptyPut`), or the iterator's first error; the only other outcome is
    LMDB's refusal of an empty or too long input key. -/
theorem C19_emptyput (ik : Bool) (it : Iter E ε) (s : S) (input : List E) :
    (emptyPut ik false it s input = .error .badKey ∧ ∃ e ∈ input, badKey (it.key e) = true) ∨
    emptyPut ik false it s input =
      match specEmptyPut ik it input with
      | .ok db' => .ok ⟨db', true⟩
      | .error x => .error (.iter x) := by
  rw [specEmptyPut_eq_fold]
  exact doPutEmpty_spec it input []

/-- … and with input keys of 1..511 bytes the refusal cannot happen. -/
theorem C19_emptyput_valid (ik : Bool) (it : Iter E ε) (s : S) (input : List E)
    (hk : ∀ e ∈ input, badKey (it.key e) = false) :
    emptyPut ik false it s input =
      match specEmptyPut ik it input with
      | .ok db' => .ok ⟨db', true⟩
      | .error x => .error (.iter x) := by
  rcases C19_emptyput ik it s input with ⟨_, e, he, hb⟩ | h
  · rw [hk e he] at hb; cases hb
  · exact h

/-! ## 6. the hypotheses are satisfiable: a concrete instance -/

/-- entries are (key, value); the decision is the entry's value (empty = delete), except that a
    stored value starting with 0xff is kept; clean removes stored values starting with 0x00 -/
def exIt : Iter (Bytes × Bytes) Unit :=
  { key := Prod.fst
    merge := fun e old => if old.head? = some 0xff then .ok (some old) else .ok (some e.2)
    clean := fun v => if v.head? = some 0 then .ok none else .ok (some v) }

def exDb : KVs := [([1], [0x10]), ([3], [0]), ([4], [0xff, 1]), ([5, 0], [0x50])]
def exInput : List (Bytes × Bytes) := [([1], [0x11]), ([2], [0x22]), ([4], [0x44]), ([4, 0], [])]

example : Sorted false exDb := by decide
example : ∀ p ∈ exDb, badKey p.1 = false := by decide
example : sortedKeys false (exInput.map exIt.key) = true := by decide
example : ∀ e ∈ exInput, (exIt.key e).length ≠ 0 ∧ (exIt.key e).length ≤ 511 := by decide
example : ∀ e o, ∃ r, exIt.merge e o = .ok r := by
  intro e o; unfold exIt; dsimp only; split <;> exact ⟨_, rfl⟩
example : ∀ v, ∃ r, exIt.clean v = .ok r := by
  intro v; unfold exIt; dsimp only; split <;> exact ⟨_, rfl⟩

/-- IterUpdate on the instance: [1] overwritten, [2] inserted, [3] cleaned away, [4] kept (no write),
    [4,0] not inserted (empty decision), [5,0] kept by clean -/
example : iterUpdate false exIt ⟨exDb, false⟩ exInput
    = .ok ⟨[([1], [0x11]), ([2], [0x22]), ([4], [0xff, 1]), ([5, 0], [0x50])], true⟩ := rfl
example : specIterUpdate false exIt exDb exInput
    = .ok [([1], [0x11]), ([2], [0x22]), ([4], [0xff, 1]), ([5, 0], [0x50])] := rfl

/-- Update on the same instance (any order, here with a duplicate key) -/
example : update false exIt ⟨exDb, false⟩ (([2], [0x23]) :: exInput)
    = .ok ⟨[([1], [0x11]), ([2], [0x22]), ([3], [0]), ([4], [0xff, 1]), ([5, 0], [0x50])], true⟩ := rfl
example : specUpdate false exIt exDb (([2], [0x23]) :: exInput)
    = .ok [([1], [0x11]), ([2], [0x22]), ([3], [0]), ([4], [0xff, 1]), ([5, 0], [0x50])] := rfl

/-- an unsorted input is refused -/
example : iterUpdate false exIt ⟨exDb, false⟩ [([2], [1]), ([1], [1])] = .error .notSorted := rfl

/-- integer keys: 4-byte little-endian keys 256 < 1·2^24 although byte-wise [0,1,0,0] < [0,0,0,1] fails -/
example : Sorted true [([0, 1, 0, 0], [1]), ([0, 0, 0, 1], [2])] ∧ ¬ Sorted false [([0, 1, 0, 0], [1]), ([0, 0, 0, 1], [2])] := by
  decide

end Ls.C19
