import LsLemmas.AbsBucketInv
/-
  C05 — Published data is never lost from the bucket.
  Stated on the abstract bucket system (LsLemmas/AbsBucket.lean): any number of instances;
  schedules of monotone application writes, uploads (only by an instance that is not waiting for
  its own newest snapshot), failed uploads, merges of any alive snapshot, restarts with the
  database kept or emptied, cleaner deletions of superseded snapshots and of snapshots that the
  cleaning instance merged before a successful upload of its own — by any instance, in any order.
  The inductive invariant is `Ls.Abs.Inv` (LsLemmas/AbsBucketInv.lean).
-/
namespace Ls.C05
open Ls Ls.Abs

/-- Witness invariant, with storage order. In every reachable state, every snapshot ever stored
    (position `p` of the bucket history, deleted or not) has a witness: a snapshot at a position
    `q ≥ p` (stored no earlier) that is alive, is the newest alive snapshot of its instance, and
    holds for every key a version at least as new as the stored snapshot's. -/
theorem C05_witness_invariant_ordered {f : BF} (h : Reach f) (p : Nat) (x : Blob)
    (hx : f.bucket[p]? = some x) :
    ∃ (q : Nat) (w : Blob), p ≤ q ∧ f.bucket[q]? = some w ∧ w.alive = true ∧
      newestIdx f.bucket w.inst = some q ∧ newestContent f w.inst = some w.content ∧
      x.content.le w.content := by
  obtain ⟨q, w, hn, hpq, hle⟩ := (inv_reach h).wit p x hx
  exact ⟨q, w, hpq, hn.1, hn.2.1, hn.toIdx, hn.content, hle⟩

/-- Witness invariant. In every reachable state — whatever the number of instances and whatever
    the schedule of monotone application writes, uploads, failed uploads, merges, restarts with
    the database kept or emptied, and cleaner deletions (superseded or stale) by any instance —
    for every snapshot ever stored in the bucket (alive or deleted) there is an instance whose
    newest alive snapshot holds, for every key, a version at least as new. -/
theorem C05_witness_invariant {f : BF} (h : Reach f) :
    ∀ x ∈ f.bucket, ∃ (j : Nat) (w : DB), newestContent f j = some w ∧ x.content.le w := by
  intro x hx
  obtain ⟨p, hp⟩ := List.mem_iff_getElem?.mp hx
  obtain ⟨q, w, _, _, _, _, hc, hle⟩ := C05_witness_invariant_ordered h p x hp
  exact ⟨w.inst, w.content, hc, hle⟩

/-- The same along a schedule: after any enabled schedule from any reachable state, every
    snapshot that was in the bucket (alive or not) before the schedule has a witness after it. -/
theorem C05_witness_after_run {f : BF} (h : Reach f) (steps : List BStep)
    (he : EnabledFrom f steps) (p : Nat) (x : Blob) (hx : f.bucket[p]? = some x) :
    ∃ (j : Nat) (w : DB), newestContent (brun f steps) j = some w ∧ x.content.le w := by
  obtain ⟨x', hx', _, hc⟩ := brun_keeps steps hx
  have := C05_witness_invariant (reach_run h steps he) x' (List.mem_of_getElem? hx')
  rw [hc] at this; exact this

/-- The newest snapshots never jointly lose a version. For every reachable state, every enabled
    step and every instance `j` with a newest alive snapshot `w` before the step, some instance
    has after the step a newest alive snapshot holding, for every key, a version at least as new
    as `w`'s: per key, the join over the newest snapshots of all instances never decreases. -/
theorem C05_join_monotone {f : BF} (h : Reach f) (s : BStep) (he : enabled f s) (j : Nat) (w : DB)
    (hw : newestContent f j = some w) :
    ∃ (j' : Nat) (w' : DB), newestContent (bstep f s) j' = some w' ∧ w.le w' := by
  obtain ⟨q, x, hn, _, hc⟩ := newestContent_some hw
  have := C05_witness_after_run h [s] ⟨he, trivial⟩ q x hn.1
  rw [hc] at this; exact this

/-! ### no upload while waiting for the own snapshot -/

/-- An upload is enabled exactly when the instance is not waiting for its own newest snapshot. -/
theorem C05_no_upload_while_waiting (f : BF) (i : Nat) :
    enabled f (.send i) ↔ f.waitingOwn i = false := Iff.rfl

/-- A restart (database kept or emptied) of an instance that has an alive snapshot in the bucket
    puts it into the waiting state; and a restart with `wipe` leaves it with an empty database. -/
theorem C05_restart_sets_waiting (f : BF) (i : Nat) (wipe : Bool) (w : DB)
    (hw : newestContent f i = some w) :
    (bstep f (.restart i wipe)).waitingOwn i = true ∧
      (wipe = true → (bstep f (.restart i wipe)).db i = DB.empty) := by
  obtain ⟨q, x, hn, hi, _⟩ := newestContent_some hw
  subst hi
  constructor
  · simp [bstep, hn.toIdx]
  · intro hwp; simp [bstep, hwp]

/-- A waiting instance stays waiting across every step other than a merge, by that instance, of
    its own newest alive snapshot, or another restart of that instance. -/
theorem C05_waiting_until_own_load (f : BF) (i : Nat) (s : BStep) (hw : f.waitingOwn i = true)
    (hl : ∀ idx, s = .load i idx → newestIdx f.bucket i ≠ some idx)
    (hr : ∀ wipe, s ≠ .restart i wipe) : (bstep f s).waitingOwn i = true := by
  cases s with
  | write j k v => exact hw
  | send j => exact hw
  | sendFails j => exact hw
  | load j idx =>
    cases hb : f.bucket[idx]? with
    | none => rw [bstep_load_none hb]; exact hw
    | some y =>
      rw [bstep_load_some hb]
      simp only
      rw [if_neg]
      · exact hw
      · rintro ⟨hji, _, hnew⟩
        subst hji
        exact hl idx rfl hnew
  | restart j wipe =>
    have hji : i ≠ j := fun e => hr wipe (by rw [e])
    simp only [bstep, if_neg hji]; exact hw
  | cleanSuperseded idx => exact hw
  | cleanStale a idx => exact hw

/-- no step of the schedule is a merge by `i` of its own newest alive snapshot or a restart of `i` -/
def NoOwnLoad (i : Nat) (f : BF) : List BStep → Prop
  | [] => True
  | s :: rest =>
    (∀ idx, s = .load i idx → newestIdx f.bucket i ≠ some idx) ∧ (∀ wipe, s ≠ .restart i wipe) ∧
      NoOwnLoad i (bstep f s) rest

/-- Along any enabled schedule that starts with instance `i` waiting and in which `i` neither
    merges its own newest alive snapshot nor restarts again, `i` uploads nothing and is still
    waiting at the end. -/
theorem C05_no_upload_before_own_load (f : BF) (i : Nat) (steps : List BStep)
    (hw : f.waitingOwn i = true) (he : EnabledFrom f steps) (hn : NoOwnLoad i f steps) :
    BStep.send i ∉ steps ∧ (brun f steps).waitingOwn i = true := by
  induction steps generalizing f with
  | nil => exact ⟨by simp, hw⟩
  | cons s rest ih =>
    have hw' := C05_waiting_until_own_load f i s hw hn.1 hn.2.1
    obtain ⟨h1, h2⟩ := ih (bstep f s) hw' he.2 hn.2.2
    refine ⟨?_, h2⟩
    intro hm
    rcases List.mem_cons.mp hm with hs | hm
    · have hen := he.1
      rw [← hs] at hen
      have : f.waitingOwn i = false := hen
      rw [hw] at this; cases this
    · exact h1 hm

/-- Merging its own newest alive snapshot ends the waiting state, and from then on the instance's
    database holds every alive snapshot of its own (so its next upload supersedes them). -/
theorem C05_own_load_releases {f : BF} (h : Reach f) (i idx : Nat)
    (hn : newestIdx f.bucket i = some idx) :
    (bstep f (.load i idx)).waitingOwn i = false ∧
      ∀ (p : Nat) (x : Blob), f.bucket[p]? = some x → x.inst = i → x.alive = true →
        x.content.le ((bstep f (.load i idx)).db i) := by
  obtain ⟨w, hw, hi⟩ := newestIdx_some hn
  have hrel : (bstep f (.load i idx)).waitingOwn i = false := by
    rw [bstep_load_some hw.1]; simp [hi, hn]
  refine ⟨hrel, ?_⟩
  have hinv := inv_load (inv_reach h) i idx
  intro p x hx hxi hxa
  have hb : (bstep f (.load i idx)).bucket = f.bucket := by rw [bstep_load_some hw.1]
  exact hinv.own i hrel p x (by rw [hb]; exact hx) hxi hxa

/-! ### the scenario the property names -/

/-- Restart with an emptied database. An instance `i` that has a newest alive snapshot `w` in the
    bucket restarts with its database emptied. Its database is then empty and it is waiting;
    whatever happens afterwards (any enabled schedule: its own writes and uploads once it may
    upload, merges, cleaners of every instance, further restarts), some instance's newest alive
    snapshot still holds, for every key, a version at least as new as `w`'s. -/
theorem C05_restart_wiped_witness {f : BF} (h : Reach f) (i : Nat) (w : DB)
    (hw : newestContent f i = some w) (steps : List BStep)
    (he : EnabledFrom (bstep f (.restart i true)) steps) :
    (bstep f (.restart i true)).db i = DB.empty ∧
    (bstep f (.restart i true)).waitingOwn i = true ∧
    ∃ (j : Nat) (w' : DB),
      newestContent (brun (bstep f (.restart i true)) steps) j = some w' ∧ w.le w' := by
  obtain ⟨h1, h2⟩ := C05_restart_sets_waiting f i true w hw
  refine ⟨h2 rfl, h1, ?_⟩
  obtain ⟨q, x, hn, _, hc⟩ := newestContent_some hw
  have := C05_witness_after_run h (.restart i true :: steps) ⟨trivial, he⟩ q x hn.1
  rw [hc] at this; exact this

/-! ### the guard is necessary -/

/-- the step function without looking at the guards (the same function; `Reach` is what imposes
    `enabled`) -/
def bstepUnguarded : BF → BStep → BF := bstep

def k0 : Key := ([1], [2])
def k1 : Key := ([1], [3])
def v0 : Ver := ⟨5, false, [7]⟩
def v1 : Ver := ⟨6, false, [8]⟩

/-- instance 0 publishes `k0`, restarts with an emptied database, writes `k1` … -/
def badPrefix : List BStep := [.write 0 k0 v0, .send 0, .restart 0 true, .write 0 k1 v1]
/-- … and uploads although it is still waiting for its own snapshot -/
def badRun : List BStep := badPrefix ++ [.send 0]

/-- the bucket after `badRun`: two alive snapshots of instance 0, the second without `k0` -/
theorem C05_badRun_bucket : (badRun.foldl bstepUnguarded binit).bucket =
    [⟨0, upd DB.empty k0 v0, true⟩, ⟨0, upd DB.empty k1 v1, true⟩] := rfl

/-- Negative witness. Every step of `badPrefix` is enabled; after it instance 0 is waiting, so
    the final `send 0` of `badRun` is NOT enabled. If it is taken nevertheless, the first stored
    snapshot holds a version for key `k0` while no instance's newest alive snapshot holds any
    version for `k0`: the witness invariant fails, published data is lost. -/
theorem C05_unguarded_send_loses_data :
    EnabledFrom binit badPrefix ∧
    (brun binit badPrefix).waitingOwn 0 = true ∧
    ¬ enabled (brun binit badPrefix) (.send 0) ∧
    ∃ x, (badRun.foldl bstepUnguarded binit).bucket[0]? = some x ∧ x.content k0 = some v0 ∧
      (∀ (j : Nat) (w : DB), newestContent (badRun.foldl bstepUnguarded binit) j = some w →
        w k0 = none) ∧
      ¬ ∃ (j : Nat) (w : DB), newestContent (badRun.foldl bstepUnguarded binit) j = some w ∧
          x.content.le w := by
  have hwait : (brun binit badPrefix).waitingOwn 0 = true := by decide
  have hnone : ∀ (j : Nat) (w : DB),
      newestContent (badRun.foldl bstepUnguarded binit) j = some w → w k0 = none := by
    intro j w hw
    obtain ⟨q, y, hn, _, hc⟩ := newestContent_some hw
    subst hc
    rw [C05_badRun_bucket] at hn
    have hq : q < 2 := getElem?_lt hn.1
    have hq' : q = 0 ∨ q = 1 := by omega
    rcases hq' with rfl | rfl
    · have hy := hn.1
      simp only [List.getElem?_cons_zero, Option.some.injEq] at hy
      subst hy
      have h1 := hn.2.2 1 ⟨0, upd DB.empty k1 v1, true⟩ (by omega) rfl rfl
      cases h1
    · have hy := hn.1
      simp only [List.getElem?_cons_succ, List.getElem?_cons_zero, Option.some.injEq] at hy
      subst hy
      simp [upd, DB.empty, k0, k1]
  refine ⟨⟨⟨by decide, rfl⟩, rfl, trivial, ⟨by decide, rfl⟩, trivial⟩, hwait, ?_, ?_⟩
  · intro he
    have : (brun binit badPrefix).waitingOwn 0 = false := he
    rw [hwait] at this; cases this
  · refine ⟨⟨0, upd DB.empty k0 v0, true⟩, rfl, upd_same DB.empty k0 v0, hnone, ?_⟩
    rintro ⟨j, w, hw, hle⟩
    have h0 := hnone j w hw
    have := hle k0
    rw [h0, join_none_right] at this
    simp only [upd_same] at this
    cases this

/-! ### non-vacuity -/

/-- two instances; instance 0 publishes, instance 1 merges and re-publishes; instance 0 restarts
    with an emptied database, merges its own newest snapshot, writes another key; instance 1's
    cleaner deletes instance 0's (stale) snapshot; instance 0 uploads -/
def goodRun : List BStep :=
  [.write 0 k0 v0, .send 0, .load 1 0, .send 1, .restart 0 true, .load 0 0, .write 0 k1 v1,
   .cleanStale 1 0, .send 0]

/-- every step of `goodRun` is enabled in the state it is taken in -/
theorem C05_goodRun_enabled : EnabledFrom binit goodRun := by
  refine ⟨⟨by decide, rfl⟩, rfl, ⟨_, rfl, rfl⟩, rfl, trivial, ⟨_, rfl, rfl⟩, ⟨by decide, ?_⟩,
    ?_, ?_, trivial⟩
  · show join ((DB.empty.join (upd DB.empty k0 v0)) k1) (some v1) = some v1
    simp [DB.join, DB.empty, upd, k0, k1, join]
  · show 0 ∈ [0]; simp
  · show (_ : Bool) = false; rfl

/-- the snapshot of instance 0 before its restart, and what instance 1 holds after merging it -/
def c0 : DB := upd DB.empty k0 v0
def c1 : DB := DB.empty.join c0
/-- what instance 0 publishes after the wiped restart, the merge of its own snapshot and a write -/
def c2 : DB := upd (DB.empty.join c0) k1 v1

/-- the bucket after `goodRun`: the first snapshot deleted, one newest snapshot per instance -/
theorem C05_goodRun_bucket : (brun binit goodRun).bucket =
    [⟨0, c0, false⟩, ⟨1, c1, true⟩, ⟨0, c2, true⟩] := rfl

/-- A reachable state with a wiped restart and a stale cleaning: every step of `goodRun` is
    enabled, the state is reachable (so all theorems above apply to it), the first snapshot has
    been deleted, and the newest snapshot of instance 0 holds both written versions, the newest
    of instance 1 the first one. -/
example :
    Reach (brun binit goodRun) ∧
    (∃ x, (brun binit goodRun).bucket[0]? = some x ∧ x.alive = false ∧ x.content k0 = some v0) ∧
    (∃ w, newestContent (brun binit goodRun) 0 = some w ∧ w k0 = some v0 ∧ w k1 = some v1) ∧
    (∃ w, newestContent (brun binit goodRun) 1 = some w ∧ w k0 = some v0) ∧
    ∀ x ∈ (brun binit goodRun).bucket,
      ∃ (j : Nat) (w : DB), newestContent (brun binit goodRun) j = some w ∧ x.content.le w := by
  have hr : Reach (brun binit goodRun) := reach_run Reach.init goodRun C05_goodRun_enabled
  refine ⟨hr, ⟨⟨0, c0, false⟩, rfl, rfl, ?_⟩, ⟨c2, rfl, ?_, ?_⟩, ⟨c1, rfl, ?_⟩,
    C05_witness_invariant hr⟩
  · simp [c0, upd]
  · simp [c2, c0, DB.join, DB.empty, upd, k0, k1, join]
  · simp [c2, upd]
  · simp [c1, c0, DB.join, DB.empty, upd, join]

/-- instance 0 publishes twice; instance 1 merges the second snapshot, re-publishes and deletes it
    as stale while the first one is still there; instance 0 restarts with an emptied database and
    merges its own newest ALIVE snapshot (the first one) -/
def staleRun : List BStep :=
  [.write 0 k0 v0, .send 0, .write 0 k1 v1, .send 0, .load 1 1, .send 1, .cleanStale 1 1,
   .restart 0 true, .load 0 0]

/-- every step of `staleRun` is enabled in the state it is taken in -/
theorem C05_staleRun_enabled : EnabledFrom binit staleRun := by
  refine ⟨⟨by decide, rfl⟩, rfl, ⟨by decide, ?_⟩, rfl, ⟨_, rfl, rfl⟩, rfl, ?_, trivial,
    ⟨_, rfl, rfl⟩, trivial⟩
  · show join ((upd DB.empty k0 v0) k1) (some v1) = some v1
    simp [DB.empty, upd, k0, k1, join]
  · show 1 ∈ [1]; simp

/-- Why the invariant speaks about ALIVE own snapshots only: in this reachable state instance 0 is
    not waiting, yet a deleted snapshot of its own holds a version for `k1` that its database does
    not hold (the version is in instance 1's newest snapshot, which is the witness). -/
example :
    Reach (brun binit staleRun) ∧ (brun binit staleRun).waitingOwn 0 = false ∧
    (∃ x, (brun binit staleRun).bucket[1]? = some x ∧ x.inst = 0 ∧ x.alive = false ∧
      x.content k1 = some v1 ∧ ¬ x.content.le ((brun binit staleRun).db 0)) ∧
    ∃ w, newestContent (brun binit staleRun) 1 = some w ∧ w k1 = some v1 := by
  refine ⟨reach_run Reach.init staleRun C05_staleRun_enabled, by decide,
    ⟨⟨0, upd (upd DB.empty k0 v0) k1 v1, false⟩, rfl, rfl, rfl, upd_same (upd DB.empty k0 v0) k1 v1, ?_⟩,
    ⟨DB.empty.join (upd (upd DB.empty k0 v0) k1 v1), rfl, ?_⟩⟩
  · intro hle
    have h := hle k1
    have hdb : (brun binit staleRun).db 0 k1 = none := by
      show (DB.empty.join (upd DB.empty k0 v0)) k1 = none
      simp [DB.join, DB.empty, upd, k0, k1, join]
    rw [hdb, join_none_right] at h
    simp only [upd_same] at h
    cases h
  · simp [DB.join, DB.empty, upd, join]

end Ls.C05
