import LsLemmas.NameTime
import LsLemmas.NameSplit
/-
  C15 — Snapshot names round-trip and sort chronologically.
  Model: LsModel/Name.lean, LsModel/Civil.lean (snapshot/name.go, syncer/utils.go instanceID, as
  they are in /repo; names are byte strings, order is byte-wise lexicographic order).
  Property theorems only; helper lemmas live in LsLemmas (Name*, CivilTable*).
-/
namespace Ls.C15
open Ls Ls.Civil Ls.Name

/-- The facts the hand-written parts of the model rely on are the ones regenerated from the
    source: the time layout and the position of its '.', the sanitiser's character class, and
    the default extension being registered as a snapshot. -/
theorem C15_model_matches_generated :
    Gen.timeFormat = "20060102-150405.000000000" ∧ Gen.dotIndex = 15 ∧ tsLen = 25 ∧
    Gen.reUnsafe = "[^a-zA-Z0-9-]" ∧
    lookupExt (strBytes Gen.defaultExtension) = some (strBytes Gen.kindSnapshot) :=
  ⟨rfl, rfl, by decide, rfl, by decide⟩

/-- Round trip. For database, instance, generation and extra items over the safe alphabet
    `[A-Za-z0-9-]` (they may be empty; the extension is any registered one and may contain
    anything), and every timestamp `0 ≤ t < 2^63` ns: parsing the built name succeeds and returns
    exactly those components, the 25-byte timestamp string, and a time whose UNIX nanoseconds
    are `t`. -/
theorem C15_roundtrip (db inst gen : Bytes) (extras : List Bytes) (t : Nat) (ext kind : Bytes)
    (hdb : Safe db) (hinst : Safe inst) (hgen : Safe gen) (hex : ∀ e ∈ extras, Safe e)
    (ht : t < 2 ^ 63) (hext : lookupExt ext = some kind) :
    parseName (buildName db inst gen extras t ext)
      = .ok { fullName := buildName db inst gen extras t ext,
              baseName := joinUU (db :: inst :: nameTimestamp t :: gen :: extras),
              ext := ext, kind := kind, db := db, inst := inst, tss := nameTimestamp t,
              gen := gen, extras := extras, time := ofNanos t }
    ∧ toNanos (ofNanos t) = (t : Int) := by
  have ht' : t < tsBound := by rw [tsBound_eq]; exact ht
  refine ⟨?_, toNanos_ofNanos t ht'⟩
  have hts_us : us ∉ nameTimestamp t := fun hm => by
    rcases nameTimestamp_bytes t us hm with h | h
    · revert h; decide
    · revert h; decide
  have hts_dot : dot ∉ nameTimestamp t := fun hm => by
    rcases nameTimestamp_bytes t dot hm with h | h
    · revert h; decide
    · revert h; decide
  have hfields_us : ∀ f ∈ db :: inst :: nameTimestamp t :: gen :: extras, us ∉ f := by
    intro f hf
    simp only [List.mem_cons] at hf
    rcases hf with rfl | rfl | rfl | rfl | hf
    · exact hdb.no_us
    · exact hinst.no_us
    · exact hts_us
    · exact hgen.no_us
    · exact (hex f hf).no_us
  have hfields_dot : ∀ f ∈ db :: inst :: nameTimestamp t :: gen :: extras, dot ∉ f := by
    intro f hf
    simp only [List.mem_cons] at hf
    rcases hf with rfl | rfl | rfl | rfl | hf
    · exact hdb.no_dot
    · exact hinst.no_dot
    · exact hts_dot
    · exact hgen.no_dot
    · exact (hex f hf).no_dot
  have hbase : dot ∉ joinUU (db :: inst :: nameTimestamp t :: gen :: extras) :=
    not_mem_joinUU dot (by decide) _ hfields_dot
  have hcut := cutDot_append _ ext hbase
  have hsplit := splitUU_joinUU (db :: inst :: nameTimestamp t :: gen :: extras) (by simp) hfields_us
  have hfmt : ¬ ((nameTimestamp t).length ≠ tsLen ∨ (nameTimestamp t).getD Gen.dotIndex 0 ≠ dash) := by
    rw [nameTimestamp_length, tsLen_eq, nameTimestamp_dash]; simp
  unfold parseName
  simp only [buildName, buildNameTs, List.append_assoc, List.singleton_append]
  rw [hcut]
  simp only [hext, hsplit]
  rw [if_neg hfmt, timeParse_nameTimestamp t ht']

/-- Chronological = lexicographic, whatever follows the timestamp. For one database and one
    instance (any byte strings) the name of the earlier timestamp is byte-wise below the name of
    the later one, even if generation, extra items or extension differ. -/
theorem C15_order_any_suffix (db inst g1 g2 : Bytes) (e1 e2 : List Bytes) (x1 x2 : Bytes)
    (t1 t2 : Nat) (h1 : t1 < 2 ^ 63) (h2 : t2 < 2 ^ 63) (hlt : t1 < t2) :
    buildName db inst g1 e1 t1 x1 < buildName db inst g2 e2 t2 x2 := by
  rw [← tsBound_eq] at h1 h2
  rw [buildName_split, buildName_split, prefix_lt_iff, append_lt_append_iff _ _ _ _ (by simp)]
  exact .inl ((nameTimestamp_lt_iff t1 t2 h1 h2).2 hlt)

/-- Chronological = lexicographic: for fixed database, instance, generation, extras and
    extension, `t₁ < t₂` iff the name built for `t₁` is byte-wise below the name built for `t₂`. -/
theorem C15_order (db inst gen : Bytes) (extras : List Bytes) (ext : Bytes) (t1 t2 : Nat)
    (h1 : t1 < 2 ^ 63) (h2 : t2 < 2 ^ 63) :
    t1 < t2 ↔ buildName db inst gen extras t1 ext < buildName db inst gen extras t2 ext := by
  rw [← tsBound_eq] at h1 h2
  rw [buildName_split, buildName_split, prefix_lt_iff, append_lt_append_iff _ _ _ _ (by simp),
    nameTimestamp_lt_iff t1 t2 h1 h2]
  constructor
  · exact .inl
  · rintro (h | ⟨_, h⟩)
    · exact h
    · exact absurd h (bytes_lt_irrefl _)

/-- Names are injective in the timestamp: equal names, equal timestamps. -/
theorem C15_name_injective (db inst gen : Bytes) (extras : List Bytes) (ext : Bytes) (t1 t2 : Nat)
    (h1 : t1 < 2 ^ 63) (h2 : t2 < 2 ^ 63)
    (h : buildName db inst gen extras t1 ext = buildName db inst gen extras t2 ext) : t1 = t2 := by
  have a := C15_order db inst gen extras ext t1 t2 h1 h2
  have b := C15_order db inst gen extras ext t2 t1 h2 h1
  rw [h] at a b
  have hi := bytes_lt_irrefl (buildName db inst gen extras t2 ext)
  have h3 : ¬ t1 < t2 := fun hh => hi (a.1 hh)
  have h4 : ¬ t2 < t1 := fun hh => hi (b.1 hh)
  omega

/-- The last name of a sorted listing is the newest snapshot. `l` lists the snapshots of one
    database and instance as (timestamp, generation, extras, extension); if their names are in
    ascending byte order (as a blob-store listing is), no entry is newer than the last one —
    what "the later name overwrites the earlier" in the receiver and the cleaner rely on. -/
theorem C15_last_is_newest (db inst : Bytes) (l : List (Nat × Bytes × List Bytes × Bytes))
    (hne : l ≠ []) (hl : ∀ e ∈ l, e.1 < 2 ^ 63)
    (hs : (l.map fun e => buildName db inst e.2.1 e.2.2.1 e.1 e.2.2.2).Pairwise (fun a b => ¬ b < a)) :
    ∀ e ∈ l, e.1 ≤ (l.getLast hne).1 := by
  intro e he
  rw [List.pairwise_map] at hs
  rcases pairwise_last _ l hne hs e he with h | h
  · rw [h]; exact Nat.le_refl _
  · by_cases hle : e.1 ≤ (l.getLast hne).1
    · exact hle
    · exact absurd (C15_order_any_suffix db inst _ _ _ _ _ _ _ _
        (hl _ (List.getLast_mem hne)) (hl e he) (by omega)) h

/-- No foreign database. A name built for database `d'` never carries the listing prefix
    `d ++ "__"` of a different database `d` (both over the safe alphabet; instance, generation,
    extras, extension arbitrary). -/
theorem C15_no_foreign (d d' inst gen : Bytes) (extras : List Bytes) (t : Nat) (ext : Bytes)
    (hd : Safe d) (hd' : Safe d') (hne : d' ≠ d) :
    ¬ (d ++ uu) <+: buildName d' inst gen extras t ext := by
  intro hp
  have hb : buildName d' inst gen extras t ext
      = d' ++ us :: (us :: (joinUU (inst :: nameTimestamp t :: gen :: extras) ++ [dot] ++ ext)) := by
    simp [buildName, buildNameTs, joinUU, uu, List.append_assoc]
  rw [hb] at hp
  exact hne (prefix_sep_eq d d' [us] _ hd.no_us hd'.no_us hp).symm

/-- Only snapshots parse. If `ParseName` accepts `s`, then `s` is `base ++ "." ++ ext` with no
    '.' in `base`, `ext` is a registered extension (of the returned kind), `base` is the
    "__"-join of at least four fields — database, instance, timestamp string, generation, then
    the extras — the timestamp string has 25 bytes with '-' at position 15 and denotes an
    existing calendar date and time of day, and rebuilding the name from the parsed components
    (`BuildName` with the parsed timestamp string) gives `s` back. Everything else is rejected. -/
theorem C15_parse_accepts_only (s : Bytes) (ni : NameInfo) (h : parseName s = .ok ni) :
    s = ni.baseName ++ dot :: ni.ext ∧ dot ∉ ni.baseName ∧ ni.fullName = s ∧
    lookupExt ni.ext = some ni.kind ∧
    ni.baseName = joinUU (ni.db :: ni.inst :: ni.tss :: ni.gen :: ni.extras) ∧
    splitUU ni.baseName = ni.db :: ni.inst :: ni.tss :: ni.gen :: ni.extras ∧
    ni.tss.length = 25 ∧ ni.tss.getD 15 0 = dash ∧ timeParse ni.tss = some ni.time ∧
    (1 ≤ ni.time.month ∧ ni.time.month ≤ 12) ∧
    (1 ≤ ni.time.day ∧ ni.time.day ≤ daysIn ni.time.month ni.time.year) ∧
    ni.time.hour < 24 ∧ ni.time.min < 60 ∧ ni.time.sec < 60 ∧ ni.time.nsec < 1000000000 ∧
    buildNameTs ni.db ni.inst ni.tss ni.gen ni.extras ni.ext = s := by
  unfold parseName at h
  split at h
  · cases h
  · rename_i base ext hcut
    split at h
    · cases h
    · rename_i kind hk
      split at h
      · rename_i db inst tss gen extras hsp
        split at h
        · cases h
        · rename_i hfmt
          split at h
          · cases h
          · rename_i c htp
            cases h
            obtain ⟨hs, hnd⟩ := cutDot_some s base ext hcut
            have hj : base = joinUU (db :: inst :: tss :: gen :: extras) := by
              rw [← hsp, joinUU_splitUU]
            have hlen : tss.length = 25 := by
              rw [← tsLen_eq]; exact Classical.byContradiction fun hh => hfmt (.inl hh)
            have hdash : tss.getD 15 0 = dash :=
              Classical.byContradiction fun hh => hfmt (.inr hh)
            obtain ⟨v1, v2, v3, v4, v5, v6⟩ := timeParse_valid tss c htp
            refine ⟨hs, hnd, rfl, hk, hj, hsp, hlen, hdash, htp, v1, v2, v3, v4, v5, v6, ?_⟩
            simp only [buildNameTs]
            rw [← hj, hs]; simp
      · cases h

/-- Limit of the order property, recorded: it is about names `BuildName` produces. `ParseName`
    also accepts timestamp strings `NameTimestamp` never produces — Go's parser reads the
    nine-character fraction with `atoi`, which allows a sign — and for such foreign files byte
    order and time order disagree: "…-000000-+12345678" (12 345 678 ns after the second) sorts
    below "…-000000-000000000" (the full second). Both are accepted as snapshots of database
    "db", instance "i1". -/
theorem C15_foreign_noncanonical_witness :
    let s1 := strBytes "db__i1__20230101-000000-+12345678__GX.pb.gz"
    let s2 := strBytes "db__i1__20230101-000000-000000000__GX.pb.gz"
    let view := fun s => match parseName s with
      | .ok ni => some (ni.db, ni.inst, toNanos ni.time)
      | .error _ => none
    view s1 = some (strBytes "db", strBytes "i1", 1672531200012345678) ∧
    view s2 = some (strBytes "db", strBytes "i1", 1672531200000000000) ∧ s1 < s2 := by
  decide

/-- The sanitiser. For every input byte string (any bytes, valid UTF-8 or not) every byte of
    the sanitised instance id is in the safe alphabet, so it contains neither '_' nor '.'; safe
    strings are left alone; the result is never longer than the input and is empty only for the
    empty input. -/
theorem C15_sanitise (s : Bytes) :
    Safe (sanitize s) ∧ us ∉ sanitize s ∧ dot ∉ sanitize s ∧ (Safe s → sanitize s = s) ∧
    (sanitize s).length ≤ s.length ∧ (s ≠ [] → sanitize s ≠ []) := by
  have h := sanitizeAux_safe 0 s
  refine ⟨h, h.no_us, h.no_dot, sanitizeAux_id s, sanitizeAux_length_le 0 s, ?_⟩
  intro hne
  cases s with
  | nil => exact absurd rfl hne
  | cons b rest => exact sanitizeAux_ne_nil b rest

/-- Sanitised instance ids satisfy the hypotheses of the theorems above: a name built with a
    sanitised instance id (and safe database / generation) round-trips, whatever the configured
    instance name was. -/
theorem C15_sanitised_roundtrip (db rawInst gen : Bytes) (t : Nat) (ext kind : Bytes)
    (hdb : Safe db) (hgen : Safe gen) (ht : t < 2 ^ 63) (hext : lookupExt ext = some kind) :
    ∃ ni, parseName (buildName db (sanitize rawInst) gen [] t ext) = .ok ni ∧ ni.db = db ∧
      ni.inst = sanitize rawInst ∧ ni.gen = gen ∧ ni.extras = [] ∧ toNanos ni.time = (t : Int) := by
  have h := C15_roundtrip db (sanitize rawInst) gen [] t ext kind hdb (C15_sanitise rawInst).1 hgen
    (by simp) ht hext
  exact ⟨_, h.1, rfl, rfl, rfl, rfl, h.2⟩

/-- the hypotheses are satisfiable: database "db", instance "i1", generation "GX", one extra
    item "A1", the default extension -/
example : Safe [100, 98] ∧ Safe [105, 49] ∧ Safe [71, 88] ∧ (∀ e ∈ [[65, 49]], Safe e) ∧
    (1700000000123456789 : Nat) < 2 ^ 63 ∧
    lookupExt (strBytes Gen.defaultExtension) = some (strBytes Gen.kindSnapshot) := by
  refine ⟨by decide, by decide, by decide, by decide, by decide, by decide⟩

/-- the sanitiser does change unsafe input: "a_b.c" becomes "a-b-c" -/
example : sanitize [97, 95, 98, 46, 99] = [97, 45, 98, 45, 99] := by decide

end Ls.C15
