import LsLemmas.LoopWitness
/-
  C10 (sync-loop part) — no echo uploads: merging snapshots never causes an upload; every upload
  has a local cause. For EVERY schedule (no race-freedom needed: finding D9 makes the loop upload
  less, never more). The transaction-level part of C10 is in `LsProps/C10.lean`.
-/
namespace Ls.C10
open Ls Ls.Txn Ls.SyncLoop Ls.Loop

/-- **No echo, one segment.** If `lastSynced` has caught up with `lastTxn` (`Synced`: at `top`,
    `beforeInfo`, `sleep`: `lastTxn ≤ lastSynced`; at `loadAfterTxn txnID false`: `lastTxn ≤ txnID`),
    then after one more segment — whatever the receiver hands over, whatever the snapshot contains
    and whether or not merging it changes the LMDB — it has caught up again and nothing was stored:
    a `LoadOnce` that finds no local change hands its (adjusted) transaction id to `lastSynced`. -/
theorem C10_no_echo_step (c : LoopCfg) (b : Bucket) (s : St) (i : In) (h : Synced s) :
    Synced (go c b s i).1 ∧ (go c b s i).2 = b :=
  synced_go c b s i h

/-- **No echo, all schedules.** From a state in which `lastSynced` has caught up, for every
    continuation of any length in which no application transaction is recorded — loop segments
    with arbitrary receiver answers and clock readings, listings, other instances' stores,
    application transactions that change nothing — the loop stores nothing: the bucket grows by
    the others' blobs only, and `lastSynced` has caught up at the end again. -/
theorem C10_no_echo (c : LoopCfg) (g : G) (evs : List Ev) (hs : Synced g.st) (hna : NoAppFrom c g evs) :
    Synced (runFrom c g evs).st ∧ (runFrom c g evs).bucket = g.bucket ++ othersOf evs :=
  synced_run c g evs hs hna

/-- **Without a local cause, `lastSynced` keeps up** — invariant of every schedule. `Calm`: no
    application transaction has been recorded since the latest dump began (or since the start) and
    it is not the case that the LMDB was non-empty at start-up with no dump begun yet. Then at
    every yield point outside the send part the state is `Synced`; in particular `beforeInfo`
    will not send. -/
theorem C10_calm_synced (c : LoopCfg) (env : Env) (b : Bucket) (evs : List Ev)
    (hcalm : Calm (run c env b evs).gh)
    (hpc : (run c env b evs).st.pc = .top ∨ (run c env b evs).st.pc = .beforeInfo ∨
      (run c env b evs).st.pc = .sleep ∨
      ∃ t lc inst ts n, (run c env b evs).st.pc = .loadAfterTxn t lc inst ts n) :
    Synced (run c env b evs).st := by
  have h0 := (inv0_run c env b evs).pcinv
  unfold Synced
  rcases hpc with h | h | h | ⟨t, lc, inst, ts, n, h⟩ <;> rw [h] at h0 ⊢
  · exact h0 hcalm
  · exact h0 hcalm
  · exact h0 hcalm
  · exact h0.2 hcalm

/-- **Every upload has a local cause.** In every schedule, whenever a segment stores a blob
    (`Stores`: the only kind of segment that touches the bucket, `go_bucket`), the dump being
    stored began with a cause: since the previous dump began (or since the start of the run) an
    application transaction was recorded (`sendApp`), or it is the first dump of a run that started
    with a non-empty LMDB (`sendStart`: "lastSyncedTxnID starts as 0 to force at least one snapshot
    on startup" — the start-up `SendOnce` when the bucket is empty, else the first loop send).
    Merged snapshots are not a cause. (The model has no forced snapshot interval.) -/
theorem C10_upload_causes (c : LoopCfg) (env : Env) (b : Bucket) (evs : List Ev) (i : In)
    (hst : Stores c (run c env b evs).st i) :
    (run c env b evs).gh.sendApp = true ∨ (run c env b evs).gh.sendStart = true := by
  have h0 := (inv0_run c env b evs).pcinv
  obtain ⟨⟨who, t, ts, snap, hpc⟩, _⟩ := hst
  rw [hpc] at h0
  exact h0.2.2.2.2.1

/-- … and a dump begins only with a cause: at `beforeSend` the state is never `Calm`. -/
theorem C10_send_needs_cause (c : LoopCfg) (env : Env) (b : Bucket) (evs : List Ev)
    (hpc : (run c env b evs).st.pc = .beforeSend) : ¬ Calm (run c env b evs).gh := by
  have h0 := (inv0_run c env b evs).pcinv
  rw [hpc] at h0
  exact h0.1

/-- the bucket changes only by own stores and by others: the characterisation of the segments
    that store -/
theorem C10_bucket_step (c : LoopCfg) (b : Bucket) (s : St) (i : In) :
    (Stores c s i ∧ ∃ blob, dumpBlob c s = some blob ∧ (go c b s i).2 = b ++ [blob]) ∨
    (¬ Stores c s i ∧ (go c b s i).2 = b) :=
  go_bucket c b s i

open Ls.Loop.Witness in
/-- the hypotheses are satisfiable: after merging a snapshot into an empty LMDB the loop is
    `Synced`, and merging the same snapshot again (and again) stores nothing -/
example : Synced (run cfgS env0 bkt (schedOk.take 4)).st ∧
    (run cfgS env0 bkt (schedOk.take 4)).st.env.lastTxn = 1 := by
  refine ⟨by decide +kernel, by decide +kernel⟩

end Ls.C10
