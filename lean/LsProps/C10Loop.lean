import LsLemmas.LoopBound
/-
  C10 (sync-loop part) — no echo uploads: merging snapshots never causes an upload; every upload
  has a local cause. For EVERY schedule (no race-freedom needed: finding D9 makes the loop upload
  less, never more). The transaction-level part of C10 is in `LsProps/C10.lean`.
  Second half: the bound — once applications have stopped writing, an instance stores at most what
  it `owed` (≤ 2), a fleet of n at most the sum (≤ 2·n); helper lemmas in `LsLemmas/LoopBound.lean`.
  Third part: the forced periodic snapshot (`storage_force_snapshot_interval`) — the one upload
  without a local cause: `C10_forced_upload`, `C10_forced_then_quiet`. Everything before it is
  about states and schedules in which no snapshot is overdue (`Synced` says so; runs from `init`
  never arm the flag, `forceArmed_run`).
-/
namespace Ls.C10
open Ls Ls.Txn Ls.SyncLoop Ls.Loop

/-- **No echo, one segment.** If `lastSynced` has caught up with `lastTxn` (`Synced`: at `top`,
    `beforeInfo`, `sleep`: `lastTxn ≤ lastSynced`; at `loadAfterTxn txnID false`: `lastTxn ≤ txnID`;
    and no snapshot is overdue: `forceArmed = false`),
    then after one more segment — whatever the receiver hands over, whatever the snapshot contains
    and whether or not merging it changes the LMDB — it has caught up again and nothing was stored:
    a `LoadOnce` that finds no local change hands its (adjusted) transaction id to `lastSynced`. -/
theorem C10_no_echo_step (c : LoopCfg) (b : Bucket) (s : St) (i : In) (h : Synced s) :
    Synced (go c b s i).1 ∧ (go c b s i).2 = b :=
  synced_go c b s i h

/-- **No echo, all schedules.** From a state in which `lastSynced` has caught up, for every
    continuation of any length in which no application transaction is recorded — loop segments
    with arbitrary receiver answers and clock readings, listings, other instances' stores,
    application transactions that change nothing — the loop stores nothing: the bucket grows by
    the others' blobs only, and `lastSynced` has caught up at the end again. -/
theorem C10_no_echo (c : LoopCfg) (g : G) (evs : List Ev) (hs : Synced g.st) (hna : NoAppFrom c g evs) :
    Synced (runFrom c g evs).st ∧ (runFrom c g evs).bucket = g.bucket ++ othersOf evs :=
  synced_run c g evs hs hna

/-- **Without a local cause, `lastSynced` keeps up** — invariant of every schedule. `Calm`: no
    application transaction has been recorded since the latest dump began (or since the start) and
    it is not the case that the LMDB was non-empty at start-up with no dump begun yet. Then at
    every yield point outside the send part the state is `Synced`; in particular `beforeInfo`
    will not send. -/
theorem C10_calm_synced (c : LoopCfg) (env : Env) (b : Bucket) (evs : List Ev)
    (hcalm : Calm (run c env b evs).gh)
    (hpc : (run c env b evs).st.pc = .top ∨ (run c env b evs).st.pc = .beforeInfo ∨
      (run c env b evs).st.pc = .sleep ∨
      ∃ t lc inst ts n, (run c env b evs).st.pc = .loadAfterTxn t lc inst ts n) :
    Synced (run c env b evs).st := by
  have h0 := (inv0_run c env b evs).pcinv
  refine ⟨?_, forceArmed_run c env b evs⟩
  unfold Caught
  rcases hpc with h | h | h | ⟨t, lc, inst, ts, n, h⟩ <;> rw [h] at h0 ⊢
  · exact h0 hcalm
  · exact h0 hcalm
  · exact h0 hcalm
  · exact h0.2 hcalm

/-- **Every upload has a local cause.** In every schedule, whenever a segment stores a blob
    (`Stores`: the only kind of segment that touches the bucket, `go_bucket`), the dump being
    stored began with a cause: since the previous dump began (or since the start of the run) an
    application transaction was recorded (`sendApp`), or it is the first dump of a run that started
    with a non-empty LMDB (`sendStart`: "lastSyncedTxnID starts as 0 to force at least one snapshot
    on startup" — the start-up `SendOnce` when the bucket is empty, else the first loop send).
    Merged snapshots are not a cause. (The third cause the code knows, an overdue snapshot —
    `storage_force_snapshot_interval` — does not occur in these schedules: `Ev` has no arming
    event, `forceArmed_run`; for it see `C10_forced_upload`.) -/
theorem C10_upload_causes (c : LoopCfg) (env : Env) (b : Bucket) (evs : List Ev) (i : In)
    (hst : Stores c (run c env b evs).st i) :
    (run c env b evs).gh.sendApp = true ∨ (run c env b evs).gh.sendStart = true := by
  have h0 := (inv0_run c env b evs).pcinv
  obtain ⟨⟨who, t, ts, snap, hpc⟩, _⟩ := hst
  rw [hpc] at h0
  exact h0.2.2.2.2.1

/-- … and a dump begins only with a cause: at `beforeSend` the state is never `Calm`. -/
theorem C10_send_needs_cause (c : LoopCfg) (env : Env) (b : Bucket) (evs : List Ev)
    (hpc : (run c env b evs).st.pc = .beforeSend) : ¬ Calm (run c env b evs).gh := by
  have h0 := (inv0_run c env b evs).pcinv
  rw [hpc] at h0
  exact h0.1

/-- the bucket changes only by own stores and by others: the characterisation of the segments
    that store -/
theorem C10_bucket_step (c : LoopCfg) (b : Bucket) (s : St) (i : In) :
    (Stores c s i ∧ ∃ blob, dumpBlob c s = some blob ∧ (go c b s i).2 = b ++ [blob]) ∨
    (¬ Stores c s i ∧ (go c b s i).2 = b) :=
  go_bucket c b s i

open Ls.Loop.Witness in
/-- the hypotheses are satisfiable: after merging a snapshot into an empty LMDB the loop is
    `Synced`, and merging the same snapshot again (and again) stores nothing -/
example : Synced (run cfgS env0 bkt (schedOk.take 4)).st ∧
    (run cfgS env0 bkt (schedOk.take 4)).st.env.lastTxn = 1 := by
  refine ⟨by decide +kernel, by decide +kernel⟩

/-! ## the bound: after applications stop writing, at most the owed uploads follow -/

/-- **`ownStores` counts the instance's new blobs.** `ownStores c g evs` is defined as the number
    of loop segments of the continuation `evs` (run from `g`) that store (`Stores`, the only kind
    of segment that touches the bucket). Equivalently: it is the growth of the number of blobs
    named `c.own` in the bucket, beyond those that others stored under that name (none, when names
    are not shared); it is the growth of the whole bucket beyond the others' blobs; and it is the
    growth of the ghost counter `stores`. -/
theorem C10_ownStores_is_bucket_growth (c : LoopCfg) (g : G) (evs : List Ev) :
    ownCount c.own (runFrom c g evs).bucket =
      ownCount c.own g.bucket + ownCount c.own (othersOf evs) + ownStores c g evs ∧
    (runFrom c g evs).bucket.length = g.bucket.length + (othersOf evs).length + ownStores c g evs ∧
    (runFrom c g evs).gh.stores = g.gh.stores + ownStores c g evs :=
  ⟨ownStores_bucket c g evs, ownStores_length c g evs, ownStores_ghost c g evs⟩

/-- **The bound, sharpest form.** What an instance still owes at a yield point (`owed`):
    one upload if a dump is in flight (the program counter is at the yield point after `SendOnce`'s
    transaction, the store comes next), plus one if a cause is outstanding (`¬ Calm`: an
    application transaction was recorded since the latest dump began, or the LMDB was non-empty at
    start-up and no dump has begun yet); exactly one before the start-up segment has run (`boot`);
    none once the loop has ended. So `owed ≤ 2`.
    For every configuration (native or shadow, any options), every reachable state — any start
    environment, start bucket and history `evs0`, with application transactions, failing stores,
    races — and every continuation `evs` of any length in which no application transaction is
    recorded (arbitrary receiver answers, clock readings, store failures, listings, other
    instances' stores; the model has no restart event): the instance stores at most `owed` blobs,
    and what it owes at the end is at most the rest. (A store that exhausts its retry budget ends
    the loop and counts as no store.) -/
theorem C10_upload_bound (c : LoopCfg) (env : Env) (b : Bucket) (evs0 evs : List Ev)
    (hna : NoAppFrom c (run c env b evs0) evs) :
    owed (runFrom c (run c env b evs0) evs) + ownStores c (run c env b evs0) evs ≤
      owed (run c env b evs0) :=
  ownStores_le_owed c _ evs (inv0_run c env b evs0) hna

/-- **At most two more uploads, from any reachable state**: once applications have stopped
    writing, an instance stores at most two more blobs, however long it runs. (Two is attained:
    see the examples below — a dump in flight AND an application transaction recorded after that
    dump was taken.) -/
theorem C10_at_most_two_more_uploads (c : LoopCfg) (env : Env) (b : Bucket) (evs0 evs : List Ev)
    (hna : NoAppFrom c (run c env b evs0) evs) : ownStores c (run c env b evs0) evs ≤ 2 := by
  have h1 := C10_upload_bound c env b evs0 evs hna
  have h2 := owedOf_le_two (run c env b evs0).st.pc (run c env b evs0).gh
  unfold owed at h1
  omega

/-- **At most one more upload** unless a dump is in flight whose content is already outdated:
    if the program counter is not at the yield point after `SendOnce`'s transaction, or no
    application transaction has been recorded since that dump began (`appDirty = false`), then the
    instance stores at most one more blob — the one that was already owed (the dump in flight, or
    the one upload for the application transactions / the start-up since the latest dump). -/
theorem C10_at_most_one_more_upload (c : LoopCfg) (env : Env) (b : Bucket) (evs0 evs : List Ev)
    (hna : NoAppFrom c (run c env b evs0) evs)
    (hone : (∀ who t ts snap, (run c env b evs0).st.pc ≠ .sendAfterTxn who t ts snap) ∨
      (run c env b evs0).gh.appDirty = false) :
    ownStores c (run c env b evs0) evs ≤ 1 := by
  have h1 := C10_upload_bound c env b evs0 evs hna
  have h0 := (inv0_run c env b evs0).pcinv
  have hc := cause_le_one (run c env b evs0).gh
  have : owed (run c env b evs0) ≤ 1 := by
    unfold owed
    cases hpc : (run c env b evs0).st.pc with
    | sendAfterTxn who t ts snap =>
      rcases hone with h | h
      · exact absurd hpc (h who t ts snap)
      · rw [hpc] at h0
        have : cause (run c env b evs0).gh = 0 := (cause_eq_zero_iff _).mpr ⟨h, h0.2.2.1⟩
        show 1 + cause _ ≤ 1
        omega
    | boot => exact Nat.le_refl _
    | exited e => exact Nat.zero_le _
    | _ => exact hc
  omega

/-- **No upload when nothing is owed**: if no cause is outstanding (`Calm`) and the instance is
    past its start-up segment and has no dump in flight, then it stores nothing, however long it
    runs, as long as no application transaction is recorded. (`boot` has to be excluded: a freshly
    initialised instance is `Calm` but makes its start-up upload if its LMDB is non-empty.
    `beforeSend` is never `Calm`, `C10_send_needs_cause`.) -/
theorem C10_no_upload_when_calm (c : LoopCfg) (env : Env) (b : Bucket) (evs0 evs : List Ev)
    (hna : NoAppFrom c (run c env b evs0) evs) (hcalm : Calm (run c env b evs0).gh)
    (hboot : (run c env b evs0).st.pc ≠ .boot)
    (hsend : ∀ who t ts snap, (run c env b evs0).st.pc ≠ .sendAfterTxn who t ts snap) :
    ownStores c (run c env b evs0) evs = 0 := by
  have h1 := C10_upload_bound c env b evs0 evs hna
  have h2 := owedOf_le_cause (run c env b evs0).gh hboot hsend
  have h3 := (cause_eq_zero_iff _).mpr hcalm
  unfold owed at h1
  omega

/-- the same from `C10_calm_synced` and `C10_no_echo`, at the yield points of the load part, with
    the bucket spelled out: it grows by the others' blobs only -/
theorem C10_no_upload_when_calm_bucket (c : LoopCfg) (env : Env) (b : Bucket) (evs0 evs : List Ev)
    (hna : NoAppFrom c (run c env b evs0) evs) (hcalm : Calm (run c env b evs0).gh)
    (hpc : (run c env b evs0).st.pc = .top ∨ (run c env b evs0).st.pc = .beforeInfo ∨
      (run c env b evs0).st.pc = .sleep ∨
      ∃ t lc inst ts n, (run c env b evs0).st.pc = .loadAfterTxn t lc inst ts n) :
    (runFrom c (run c env b evs0) evs).bucket = (run c env b evs0).bucket ++ othersOf evs ∧
    ownStores c (run c env b evs0) evs = 0 := by
  have hb := (C10_no_echo c _ evs (C10_calm_synced c env b evs0 hcalm hpc) hna).2
  refine ⟨hb, ?_⟩
  have hl := ownStores_length c (run c env b evs0) evs
  rw [hb, List.length_append] at hl
  omega

/-- after the loop has ended nothing is stored -/
theorem C10_no_upload_after_exit (c : LoopCfg) (env : Env) (b : Bucket) (evs0 evs : List Ev)
    (hna : NoAppFrom c (run c env b evs0) evs) (e : Exit)
    (hpc : (run c env b evs0).st.pc = .exited e) : ownStores c (run c env b evs0) evs = 0 := by
  have h1 := C10_upload_bound c env b evs0 evs hna
  unfold owed at h1
  rw [hpc] at h1
  have : owedOf (.exited e) (run c env b evs0).gh = 0 := rfl
  omega

/-- **The fleet bound** (assume–guarantee: the single-instance bound holds in EVERY environment,
    in particular in the one made of the other instances, so it holds for all instances at once).
    `n` instances with configurations `cs 0 … cs (n-1)` (native and shadow mixed at will), start
    environments `envs j`, one common start bucket `B0`. A global schedule is a list of events
    `(k, e)`: instance `k` does `e` (a loop segment, an application transaction, a listing), or
    `e = .others bs` for writers outside the fleet; whatever an event appends to the bucket, every
    other instance sees as "others stored it" (`fleetStep`, `localEv`). After ANY global history
    `evs0`, for every global continuation `evs` in which no application transaction is recorded at
    any instance:
    * every instance's part is one of the single-instance schedules (projection);
    * all instances see one bucket: the common bucket after the history plus what was appended,
      and that is the outside writers' blobs plus one blob per storing segment (`fleetStores`);
    * the fleet produces at most `Σ owed ≤ 2·n` snapshots, and what the instances owe at the
      end is at most the rest — once the debt is paid, no snapshot is produced any more. -/
theorem C10_fleet_bound (cs : Nat → LoopCfg) (n : Nat) (envs : Nat → Env) (B0 : Bucket)
    (evs0 evs : List (Nat × Ev))
    (hk : ∀ ke ∈ evs, ke.1 < n)
    (hna : FleetNoApp cs (fleetRun cs (fun j => G.init (envs j) B0) evs0) evs) :
    let F := fleetRun cs (fun j => G.init (envs j) B0) evs0
    (∀ j, fleetRun cs F evs j = runFrom (cs j) (F j) (localEvs cs F evs j)) ∧
    (∀ j, j < n → (fleetRun cs F evs j).bucket = (F 0).bucket ++ fleetDelta cs F evs) ∧
    (fleetDelta cs F evs).length = (fleetExt evs).length + fleetStores cs F evs ∧
    fleetStores cs F evs + sumTo n (fun j => owed (fleetRun cs F evs j)) ≤ sumTo n (fun j => owed (F j)) ∧
    sumTo n (fun j => owed (F j)) ≤ 2 * n := by
  intro F
  have hreach : ∀ j, F j = run (cs j) (envs j) B0 (localEvs cs (fun j => G.init (envs j) B0) evs0 j) :=
    fun j => fleetRun_local cs _ evs0 j
  have hB : ∀ j, j < n → (F j).bucket = (F 0).bucket := by
    intro j hj
    have h0 : 0 < n := by omega
    rw [fleetRun_bucket cs n _ evs0 B0 (fun _ _ => rfl) j hj,
      fleetRun_bucket cs n _ evs0 B0 (fun _ _ => rfl) 0 h0]
  refine ⟨fleetRun_local cs F evs, fun j hj => fleetRun_bucket cs n F evs _ hB j hj,
    fleetDelta_length cs F evs, ?_, sumTo_const_le (fun j _ => owedOf_le_two _ _)⟩
  exact fleetStores_le cs n F evs hk (fun j _ => by rw [hreach j]; exact inv0_run _ _ _ _) hna

/-- … and when nothing is owed anywhere — every instance `Calm`, past start-up, no dump in
    flight — the fleet produces no snapshot at all. -/
theorem C10_fleet_quiet (cs : Nat → LoopCfg) (n : Nat) (envs : Nat → Env) (B0 : Bucket)
    (evs0 evs : List (Nat × Ev))
    (hk : ∀ ke ∈ evs, ke.1 < n)
    (hna : FleetNoApp cs (fleetRun cs (fun j => G.init (envs j) B0) evs0) evs)
    (hcalm : ∀ j, j < n →
      Calm (fleetRun cs (fun j => G.init (envs j) B0) evs0 j).gh ∧
      (fleetRun cs (fun j => G.init (envs j) B0) evs0 j).st.pc ≠ .boot ∧
      ∀ who t ts snap, (fleetRun cs (fun j => G.init (envs j) B0) evs0 j).st.pc ≠ .sendAfterTxn who t ts snap) :
    fleetStores cs (fleetRun cs (fun j => G.init (envs j) B0) evs0) evs = 0 := by
  have h := (C10_fleet_bound cs n envs B0 evs0 evs hk hna).2.2.2.1
  have h0 : sumTo n (fun j => owed (fleetRun cs (fun j => G.init (envs j) B0) evs0 j)) ≤ 0 * n :=
    sumTo_const_le (fun j hj => by
      obtain ⟨a, b, c⟩ := hcalm j hj
      have := owedOf_le_cause (fleetRun cs (fun j => G.init (envs j) B0) evs0 j).gh b c
      have := (cause_eq_zero_iff _).mpr a
      unfold owed; omega)
  omega

/-! ### the bounds are attained; the hypotheses are satisfiable -/

section Witnesses
open Ls.Loop.Witness Ls.Loop.BoundWitness

/-- **One upload after an application transaction, and no second one** (shadow and native): after
    an application transaction at `top` one upload is owed; eleven more segments without
    application transactions contain exactly one store; forty contain exactly one store. -/
example :
    owed (run cfgS env0 [] histOne) = 1 ∧ (run cfgS env0 [] histOne).gh.allApp = [1] ∧
    NoAppFrom cfgS (run cfgS env0 [] histOne) (gos 40) ∧
    ownStores cfgS (run cfgS env0 [] histOne) (gos 11) = 1 ∧
    ownStores cfgS (run cfgS env0 [] histOne) (gos 40) = 1 ∧
    ((runFrom cfgS (run cfgS env0 [] histOne) (gos 40)).bucket.map (·.inst)) = ["a"] ∧
    Calm (run cfgS env0 [] (histOne ++ gos 5)).gh ∧ (run cfgS env0 [] (histOne ++ gos 5)).st.pc = .sleep ∧
    ownStores cfgS (run cfgS env0 [] (histOne ++ gos 5)) (gos 40) = 0 := by
  refine ⟨by decide +kernel, by decide +kernel, by decide +kernel, by decide +kernel, by decide +kernel,
    by decide +kernel, by decide +kernel, by decide +kernel, by decide +kernel⟩

example :
    owed (run cfgN env0 [] histOneN) = 1 ∧ (run cfgN env0 [] histOneN).gh.allApp = [1] ∧
    NoAppFrom cfgN (run cfgN env0 [] histOneN) (gos 40) ∧
    ownStores cfgN (run cfgN env0 [] histOneN) (gos 11) = 1 ∧
    ownStores cfgN (run cfgN env0 [] histOneN) (gos 40) = 1 := by
  refine ⟨by decide +kernel, by decide +kernel, by decide +kernel, by decide +kernel, by decide +kernel⟩

/-- **The bound 2 is attained** (shadow and native): the loop has taken its dump (yield point after
    `SendOnce`'s transaction) and a second application transaction is recorded before the dump is
    stored. Without any further application transaction the instance stores the outdated dump and
    then one more; and then no third, however long it runs. -/
example :
    owed (run cfgS env0 [] histTwo) = 2 ∧
    NoAppFrom cfgS (run cfgS env0 [] histTwo) (gos 40) ∧
    ownStores cfgS (run cfgS env0 [] histTwo) (gos 12) = 2 ∧
    ownStores cfgS (run cfgS env0 [] histTwo) (gos 40) = 2 := by
  refine ⟨by decide +kernel, by decide +kernel, by decide +kernel, by decide +kernel⟩

example :
    owed (run cfgN env0 [] histTwoN) = 2 ∧
    NoAppFrom cfgN (run cfgN env0 [] histTwoN) (gos 40) ∧
    ownStores cfgN (run cfgN env0 [] histTwoN) (gos 12) = 2 ∧
    ownStores cfgN (run cfgN env0 [] histTwoN) (gos 40) = 2 := by
  refine ⟨by decide +kernel, by decide +kernel, by decide +kernel, by decide +kernel⟩

/-- **Start-up** (native): a non-empty LMDB and an empty bucket: exactly the start-up upload; and
    with an application transaction recorded between the start-up dump and its store: two — the
    start-up upload and one loop upload. -/
example :
    (run cfgN env0 [] histStart).st.pc = .boot ∧ (run cfgN env0 [] histStart).st.env.lastTxn = 1 ∧
    ownStores cfgN (run cfgN env0 [] histStart) (gos 40) = 1 ∧
    owed (run cfgN env0 [] histStartTwo) = 2 ∧
    (run cfgN env0 [] histStartTwo).gh.sendStart = true ∧
    NoAppFrom cfgN (run cfgN env0 [] histStartTwo) (gos 40) ∧
    ownStores cfgN (run cfgN env0 [] histStartTwo) (gos 40) = 2 := by
  refine ⟨by decide +kernel, by decide +kernel, by decide +kernel, by decide +kernel, by decide +kernel,
    by decide +kernel, by decide +kernel⟩

/-- **A fleet of two** (shadow): "a"'s application wrote once; in the continuation without
    application transactions "a" uploads once, "b" merges that snapshot — its LMDB changes
    (`lastTxn = 1`) — twice and uploads nothing: one snapshot in all, as owed. -/
example :
    let F := fleetRun cs2 fleet0 fleetHist
    FleetNoApp cs2 F fleetCont ∧ owed (F 0) = 1 ∧ owed (F 1) = 0 ∧
    fleetStores cs2 F fleetCont = 1 ∧
    (fleetRun cs2 F fleetCont 1).st.env.lastTxn = 1 ∧
    ((fleetRun cs2 F fleetCont 1).bucket.map (·.inst)) = ["a"] ∧
    owed (fleetRun cs2 F fleetCont 0) = 0 ∧ owed (fleetRun cs2 F fleetCont 1) = 0 := by
  refine ⟨by decide +kernel, by decide +kernel, by decide +kernel, by decide +kernel, by decide +kernel,
    by decide +kernel, by decide +kernel, by decide +kernel⟩

end Witnesses

/-! ## the forced periodic snapshot (`storage_force_snapshot_interval`)

  The force flag `forceArmed` ("the last snapshot is older than the force interval") is armed only
  from outside (`armForce`: the harness turns the clock back); the event language `Ev` has no
  arming event, so along every `run` no snapshot is overdue (`forceArmed_run`) and the theorems
  above speak about schedules WITHOUT a forced snapshot; `Synced` includes `forceArmed = false`.
  What an armed flag does — exactly one upload, then silence again — is stated here for `go`
  from arbitrary states. -/

/-- **A forced upload.** The loop is at `top`, `lastSynced` has caught up with `lastTxn` (nothing
    local to publish — without the force flag the state would be `Synced` and nothing would ever
    be stored, `C10_no_echo`), but a snapshot is overdue (`forceArmed = true`); the own instance is
    not in the waiting set and the start-up guard `hasDataAtStart ∨ lastTxn > 0` is open; the
    instance is not receive-only. Then a full iteration without application transactions —
    `iteration i1 … i5`: the five segments `top`, `beforeInfo`, `beforeSend`, `sendAfterTxn`,
    `sendStored`, where the receiver hands over nothing, `SendOnce`'s transaction succeeds with
    result `r` and fewer Store attempts fail than the retry budget — stores EXACTLY ONE snapshot
    (the bucket grows by the dump of that transaction, `ownStores = 1`); after it the force flag
    is cleared (`SendOnce` sets `lastSnapshotTime` after a successful store) and the state is
    `Synced` again: `lastSynced` has caught up and no snapshot is overdue; the loop idles (or has
    ended, in only-once mode). -/
theorem C10_forced_upload (c : LoopCfg) (g : G) (i1 i2 i3 i4 i5 : In) (r : SendRes)
    (hpc : g.st.pc = .top) (hle : g.st.env.lastTxn ≤ g.st.lastSynced)
    (harm : g.st.forceArmed = true) (hown : c.own ∉ g.st.waiting)
    (hdata : g.st.hasDataAtStart = true ∨ g.st.env.lastTxn > 0)
    (hro : c.txn.receiveOnly = false) (hnone : i1.next = none)
    (hsend : sendOnce c.txn g.st.env i3.now 0 = .ok r) (hf : i4.fails < c.retryCount) :
    (runFrom c g (iteration i1 i2 i3 i4 i5)).bucket =
      g.bucket ++ [{ inst := c.own, ts := i3.now, snap := r.snap }] ∧
    ownStores c g (iteration i1 i2 i3 i4 i5) = 1 ∧
    (runFrom c g (iteration i1 i2 i3 i4 i5)).st.forceArmed = false ∧
    Synced (runFrom c g (iteration i1 i2 i3 i4 i5)).st ∧
    ((runFrom c g (iteration i1 i2 i3 i4 i5)).st.pc = .sleep ∨
      (runFrom c g (iteration i1 i2 i3 i4 i5)).st.pc = .exited .ok) :=
  forced_iteration c g i1 i2 i3 i4 i5 r hpc hle harm hown hdata hro hnone hsend hf

/-- **… and then quiet: one forced upload, not one per iteration.** After the forced iteration of
    `C10_forced_upload`, for every continuation of any length in which no application transaction
    is recorded (loop segments with arbitrary receiver answers, clock readings and store failures,
    listings, other instances' stores — and no new arming: `Ev` has none), the instance stores
    nothing more: the bucket is the old one, the one forced snapshot, and the others' blobs. This
    is what a lost reset of the force flag would violate (the flag is cleared at `sendStored`;
    were it not, every following iteration would upload again). -/
theorem C10_forced_then_quiet (c : LoopCfg) (g : G) (i1 i2 i3 i4 i5 : In) (r : SendRes)
    (hpc : g.st.pc = .top) (hle : g.st.env.lastTxn ≤ g.st.lastSynced)
    (harm : g.st.forceArmed = true) (hown : c.own ∉ g.st.waiting)
    (hdata : g.st.hasDataAtStart = true ∨ g.st.env.lastTxn > 0)
    (hro : c.txn.receiveOnly = false) (hnone : i1.next = none)
    (hsend : sendOnce c.txn g.st.env i3.now 0 = .ok r) (hf : i4.fails < c.retryCount)
    (evs : List Ev) (hna : NoAppFrom c (runFrom c g (iteration i1 i2 i3 i4 i5)) evs) :
    (runFrom c (runFrom c g (iteration i1 i2 i3 i4 i5)) evs).bucket =
      g.bucket ++ [{ inst := c.own, ts := i3.now, snap := r.snap }] ++ othersOf evs ∧
    ownStores c (runFrom c g (iteration i1 i2 i3 i4 i5)) evs = 0 ∧
    ownStores c g (iteration i1 i2 i3 i4 i5 ++ evs) = 1 ∧
    Synced (runFrom c (runFrom c g (iteration i1 i2 i3 i4 i5)) evs).st := by
  obtain ⟨hb, h1, _, hs, _⟩ := C10_forced_upload c g i1 i2 i3 i4 i5 r hpc hle harm hown hdata hro hnone hsend hf
  obtain ⟨hs', hb'⟩ := C10_no_echo c _ evs hs hna
  have hl := ownStores_length c (runFrom c g (iteration i1 i2 i3 i4 i5)) evs
  rw [hb', List.length_append] at hl
  have h0 : ownStores c (runFrom c g (iteration i1 i2 i3 i4 i5)) evs = 0 := by omega
  refine ⟨by rw [hb', hb], h0, ?_, hs'⟩
  rw [ownStores_append, h1, h0]

section ForcedWitness
open Ls.Loop.Witness Ls.Loop.BoundWitness

/-- the hypotheses are satisfiable, and the flag matters (shadow mode): after an upload the loop
    is back at `top`, `Synced` — forty more segments store nothing; the same state with the clock
    turned back (`armForce`) stores exactly one snapshot in the next five segments, after which
    the flag is cleared, and exactly one in forty -/
example :
    let g0 := run cfgS env0 [] (histOne ++ gos 6)
    let ga : G := { g0 with st := armForce g0.st }
    g0.st.pc = .top ∧ Synced g0.st ∧ cfgS.own ∉ g0.st.waiting ∧ g0.st.env.lastTxn > 0 ∧
    ownStores cfgS g0 (gos 40) = 0 ∧
    ga.st.forceArmed = true ∧ ownStores cfgS ga (gos 5) = 1 ∧
    (runFrom cfgS ga (gos 5)).st.forceArmed = false ∧ Synced (runFrom cfgS ga (gos 5)).st ∧
    ownStores cfgS ga (gos 40) = 1 := by
  refine ⟨by decide +kernel, by decide +kernel, by decide +kernel, by decide +kernel, by decide +kernel,
    by decide +kernel, by decide +kernel, by decide +kernel, by decide +kernel, by decide +kernel⟩

end ForcedWitness

end Ls.C10
