import LsLemmas.TxnAbs
import LsProps.C02
import LsProps.C06
import LsProps.C18
import LsProps.C19
/-
  C01 (refinement) — the byte-level transactions of a NATIVE schema (`schema_tracks_changes`)
  refine the steps of the abstract fleet of LsLemmas/AbsFleet.lean, on which C01 (LsProps/C01.lean)
  is stated.
  Model: LsModel/Txn.lean (`sendOnce`, `loadOnce`, `appTxn`), following /repo/syncer/send.go
  SendOnce, /repo/syncer/sync.go LoadOnce, /repo/syncer/iterators.go NativeIterator.Merge,
  /repo/lmdbenv/strategy/update.go. Helper lemmas: LsLemmas/TxnAbs.lean (built on
  `mergeStore_join` = C02_merge_is_join, `foldMerge_joinAll` = C02_fold_is_joinAll,
  `specUpdate_get` = C19_update_pointwise, `sendOnce_ok_iff` = C06_complete, `loadOnce_eq`,
  `mergeDbi_ok` = C18_merge_is_fold, `loadFold_sorted` = C18_wf_preserved). Property theorems only.

  Vocabulary (definitions in LsLemmas/TxnAbs.lean; all predicates decidable):
  * `absEnv e : Abs.DB` — the logical content of an environment: for a key `(name, k)` with `name`
    non-private, `decodeS` (header timestamp, deleted flag, application value) of the value LMDB
    finds for `k` in DBI `name` (in that DBI's key order); `none` for a private name, a missing
    DBI, a missing key (and for a value that does not parse);
  * `absSnap s : Abs.DB` — the logical content of a snapshot: for `(m.name, k)` the join of the
    normal forms `Merge.norm` (with the snapshot's format version, no default timestamp) of the
    entries of the first message `m` with that name whose key is `k` in the order `m.flags`
    announces — with strictly increasing keys (`MsgSorted`) that is the one entry with that key;
  * `EnvWF e` — DBI names strictly increasing (`SortedNames`); every non-private DBI strictly
    sorted in its key order, its keys of 1..511 bytes, its values parsing to a well-formed version
    (deleted ⇒ no value);
  * `MsgWF m` — every entry `EntryWF` (deleted ⇒ no value), timestamp < 2^64, key of 1..511 bytes;
    `SnapOk s` — message names distinct, every message for a non-private name `MsgWF`;
    `FlagsOk c dbis m` — the DBI the message is merged into (the existing one, or the one created
    with `createFlags c m`) has the integer-key flag of the message;
    `SnapWF c e s` — `SnapOk s` and `FlagsOk c e.dbis m` for every non-private message;
  * `BFleet`, `BStep`, `bstep`, `brun`, `absFleet`, `absStep`, `absRun`, `StepOk`, `RunOk`, `BInv` —
    the byte-level fleet and its abstraction, see `C01_native_run_refines`.

  Not needed as hypotheses, because the theorems about `loadOnce` assume that it succeeded: the
  version gate, `validateTransform`, sortedness of the entries of a message (`strategy.Update`
  does not need it; `C18_gates` states that the gates were passed).
  The stale-deletion cut-off is 0 throughout: with a cut-off, the refusal of stale markers on
  absent keys is the documented exception (finding D12, `C02_stale_order_dependent_witness`).
-/
namespace Ls.C01
open Ls Ls.Lmdb Ls.Txn
open Ls.Merge (KV norm maskedFlags decodeS EntryWF)

/-! ## (A) the abstraction functions mean what they should -/

/-- **What `absEnv` is.** For a private DBI name, a name that is not a DBI of the environment, or
    a key LMDB does not find in the DBI (in the DBI's own key order), the logical content is
    `none`; if LMDB finds the stored value `b` and `b` parses (`decodeS b = .ok (some v)`: header
    timestamp, deleted flag, application value), the logical content is `some v`. In a well-formed
    environment every stored pair `(k, b)` of a non-private DBI is found under its key, so its
    content is the `some v` with `decodeS b = .ok (some v)`, and `v` is well-formed. -/
theorem C01_absEnv_spec (e : Env) (name k : Bytes) :
    (isPrivate name = true → absEnv e (name, k) = none) ∧
    (findDbi e.dbis name = none → absEnv e (name, k) = none) ∧
    (∀ d, isPrivate name = false → findDbi e.dbis name = some d →
      (get (isIntKey d.flags) d.kvs k = none → absEnv e (name, k) = none) ∧
      (∀ b v, get (isIntKey d.flags) d.kvs k = some b → decodeS b = .ok (some v) →
        absEnv e (name, k) = some v) ∧
      (EnvWF e → ∀ b, (k, b) ∈ d.kvs →
        ∃ v, decodeS b = .ok (some v) ∧ v.WF ∧ absEnv e (name, k) = some v)) := by
  refine ⟨?_, ?_, ?_⟩
  · intro hp; simp [absEnv, absDbis, hp]
  · intro hf; simp only [absEnv, absDbis, hf]; split <;> rfl
  · intro d hp hf
    have habs : absEnv e (name, k) = decodeO (get (isIntKey d.flags) d.kvs k) := by
      simp only [absEnv, absDbis, hp, hf, absDbi]; rfl
    refine ⟨?_, ?_, ?_⟩
    · intro hg; rw [habs, hg]; rfl
    · intro b v hg hd; rw [habs, hg]; simp only [decodeO, hd]
    · intro hwf b hmem
      have hdw : DbiWF d := dbisOk_of_mem hwf.2 name d hf hp
      obtain ⟨v, hd, hw⟩ := storedWF_iff.mp (hdw.2 _ hmem).2
      refine ⟨v, hd, hw, ?_⟩
      rw [habs, get_of_mem hdw.1 hmem]
      simp only [decodeO, hd]

/-- **What `absSnap` is.** For a private name or a name without message the content is `none`.
    For the (first) message `m` with the name, if its keys are strictly increasing in the order
    its flags announce (`MsgSorted`), the content at an entry's key is that entry's normal form, and
    the content at a key without entry is `none`. For a format version ≥ 2 the normal form of an
    entry is (its timestamp, its deleted flag, its value — or no value if deleted). -/
theorem C01_absSnap_spec (s : Snap) (name : Bytes) :
    (isPrivate name = true → ∀ k, absSnap s (name, k) = none) ∧
    ((∀ m ∈ s.dbs, m.name ≠ name) → ∀ k, absSnap s (name, k) = none) ∧
    (∀ m, isPrivate name = false → s.dbs.find? (fun m => m.name = name) = some m → MsgSorted m →
      (∀ x ∈ m.entries, absSnap s (name, x.key) = some (norm (normCfg s.fv) x)) ∧
      (∀ k, (∀ x ∈ m.entries, kcmp (isIntKey m.flags) x.key k ≠ 0) → absSnap s (name, k) = none)) ∧
    (2 ≤ s.fv → ∀ x : KV, norm (normCfg s.fv) x =
      { ts := x.ts, del := Header.isDeleted (maskedFlags x),
        val := if Header.isDeleted (maskedFlags x) then [] else x.val }) := by
  refine ⟨?_, ?_, ?_, ?_⟩
  · intro hp k; simp [absSnap, absMsgs, hp]
  · intro hno k; exact absMsgs_none (key := (name, k)) hno
  · intro m hp hf hs
    have habs : ∀ k, absSnap s (name, k) = absMsg s.fv m k := by
      intro k; simp only [absSnap, absMsgs, hp, hf]; rfl
    obtain ⟨h1, h2⟩ := absMsg_of_sorted s.fv m hs
    exact ⟨fun x hx => by rw [habs]; exact h1 x hx, fun k hk => by rw [habs]; exact h2 k hk⟩
  · intro hfv x
    have hlt : ¬ s.fv < 2 := by omega
    have hts : (if x.ts = 0 then 0 else x.ts) = x.ts := by split <;> simp_all
    simp only [norm, Merge.entryDeleted, normCfg, hlt, decide_false, Bool.and_false, Bool.or_false, hts]

/-- **The logical content is well-formed** (deleted ⇒ no value) — the standing assumption
    `FleetWF` of the abstract fleet: for every well-formed environment, and for every snapshot. -/
theorem C01_abs_wf (e : Env) (s : Snap) (hwf : EnvWF e) : (absEnv e).WF ∧ (absSnap s).WF :=
  ⟨absEnv_wf hwf, absSnap_wf s⟩

/-! ## (B) `sendOnce` refines the abstract `send` -/

/-- **A native `sendOnce` publishes exactly the logical content of the environment and changes
    nothing.** If `sendOnce` succeeds on a well-formed environment with a native schema (not
    receive-only), then the logical content of the snapshot is the logical content of the
    environment (as functions, for every DBI name and key), the environment afterwards is the
    environment before (so its content is unchanged), and the snapshot can be loaded: it is
    `SnapOk` (distinct names, none private, entries well-formed), every message carries the flags
    of the DBI it was dumped from, and so it is `SnapWF` for this very environment. -/
theorem C01_send_refines_native (c : Cfg) (e : Env) (now cutoff : Nat) (r : SendRes)
    (hn : c.native = true) (hro : c.receiveOnly = false) (hwf : EnvWF e)
    (h : sendOnce c e now cutoff = .ok r) :
    absSnap r.snap = absEnv e ∧ absEnv r.env = absEnv e ∧ r.env = e ∧
    SnapOk r.snap ∧
    (∀ m ∈ r.snap.dbs, isPrivate m.name = false ∧
      ∃ d, findDbi e.dbis m.name = some d ∧ m.flags = d.flags) ∧
    SnapWF c e r.snap := by
  obtain ⟨henv, habs, hnd, hms⟩ := sendOnce_abs c e now cutoff r hn hro hwf h
  have hok : SnapOk r.snap := ⟨hnd, fun m hm _ => (hms m hm).2.1⟩
  have henv' : r.env = e := (C06.C06_single_state_native c e now cutoff hn).1 r h
  refine ⟨funext habs, by rw [henv'], henv', hok, fun m hm => ⟨(hms m hm).1, (hms m hm).2.2⟩, hok, ?_⟩
  intro m hm _
  obtain ⟨_, _, d, hd, hf⟩ := hms m hm
  unfold FlagsOk
  rw [hd, hf]; rfl

/-! ## (C) `loadOnce` refines the abstract `load` -/

/-- **A native `loadOnce` (stale-deletion cut-off 0) is the pointwise join.** If `loadOnce`
    succeeds on a well-formed environment `e` (`EnvWF`) whose next transaction id is a uint64
    (`e.lastTxn + 1 < 2^64`) with a snapshot that is well-formed relative to `e` (`SnapWF`: distinct
    message names; entries of non-private messages `EntryWF` with uint64 timestamps and keys of
    1..511 bytes; every target DBI — existing, or created by this very load with `createFlags` —
    has the integer-key flag the message announces), then for every DBI name and key the logical
    content afterwards is the last-writer-wins join of the content before with the snapshot's
    content — the `load` step of the abstract fleet — and the new environment is well-formed
    again, so the statement composes along a run. DBIs missing in `e` are created (this is the
    general statement, not only the one for existing DBIs); any format version the gate accepts
    (the normal form `Merge.norm` depends on it: below version 2 an empty value is a deletion);
    private messages in the snapshot are ignored on both sides; the entries of a message need not
    be sorted, and a key may occur several times. -/
theorem C01_load_refines_native (c : Cfg) (e : Env) (snap : Snap) (lastSynced now : Nat)
    (r : LoadRes) (hn : c.native = true) (hT : e.lastTxn + 1 < two64) (hwf : EnvWF e)
    (hsw : SnapWF c e snap) (h : loadOnce c e snap lastSynced now 0 = .ok r) :
    (∀ key, absEnv r.env key = (absEnv e).join (absSnap snap) key) ∧ EnvWF r.env := by
  obtain ⟨h1, h2⟩ := loadOnce_abs c e snap lastSynced now r hn hT hwf hsw h
  exact ⟨h2, h1⟩

/-- the same as an equation between abstract databases -/
theorem C01_load_refines_native_eq (c : Cfg) (e : Env) (snap : Snap) (lastSynced now : Nat)
    (r : LoadRes) (hn : c.native = true) (hT : e.lastTxn + 1 < two64) (hwf : EnvWF e)
    (hsw : SnapWF c e snap) (h : loadOnce c e snap lastSynced now 0 = .ok r) :
    absEnv r.env = (absEnv e).join (absSnap snap) :=
  funext (C01_load_refines_native c e snap lastSynced now r hn hT hwf hsw h).1

/-- **DBI creation.** In the situation of `C01_load_refines_native`, a DBI named in the snapshot
    that does not exist in `e` (it is created by the load, with `createFlags`, see
    `C18_create_rules`) — more generally any DBI name without logical content in `e` — holds
    afterwards exactly the snapshot's content for that name. -/
theorem C01_load_refines_native_create (c : Cfg) (e : Env) (snap : Snap) (lastSynced now : Nat)
    (r : LoadRes) (hn : c.native = true) (hT : e.lastTxn + 1 < two64) (hwf : EnvWF e)
    (hsw : SnapWF c e snap) (h : loadOnce c e snap lastSynced now 0 = .ok r)
    (name : Bytes) (hmiss : findDbi e.dbis name = none) :
    ∀ k, absEnv r.env (name, k) = absSnap snap (name, k) := by
  intro k
  rw [(C01_load_refines_native c e snap lastSynced now r hn hT hwf hsw h).1]
  have : absEnv e (name, k) = none := (C01_absEnv_spec e name k).2.1 hmiss
  simp only [Abs.DB.join, this, join_none_left]

/-- **Application write.** An application transaction that puts one stored value (header +
    application value, `StoredWF`: it parses, deleted ⇒ no value) under a key of 1..511 bytes into
    an existing, non-private DBI with byte-wise key order and without duplicate keys is committed,
    keeps the environment well-formed and overwrites exactly that key's logical content: the
    `write` step of the abstract fleet. (On an integer-key DBI a put affects every key that is
    equal as an integer, which the abstract `write` of one key does not express.) -/
theorem C01_write_refines_native (e : Env) (name k val : Bytes) (d : Dbi)
    (hwf : EnvWF e) (hd : findDbi e.dbis name = some d) (hp : isPrivate name = false)
    (hdup : isDupSort d.flags = false) (hik : isIntKey d.flags = false)
    (hk : badKey k = false) (hv : StoredWF val) :
    ∃ e', appTxn e [.put name k val] = some e' ∧ EnvWF e' ∧
      absEnv e' = Abs.upd (absEnv e) (name, k) (verOf val) ∧
      decodeS val = .ok (some (verOf val)) ∧ (verOf val).WF := by
  obtain ⟨e', h1, h2, h3⟩ := appPut_abs e name k val d hwf hd hp hdup hik hk hv
  exact ⟨e', h1, h2, h3, verOf_spec hv⟩

/-! ## (D) runs -/

/-- **Every byte-level run of a native fleet is a run of the abstract fleet.** A byte-level fleet
    (`BFleet`) is `n` environments and a bucket of snapshots; a step (`BStep`) is an application
    transaction putting one stored value, a `sendOnce` whose snapshot is appended to the bucket,
    or a `loadOnce` (cut-off 0) of any snapshot of the bucket; a failing transaction leaves
    everything as it was (`bstep`). Let the configuration be native and not receive-only, all
    environments and all snapshots of the bucket well-formed at the start (`BInv`), and let every
    step satisfy its side condition in the state it is applied to (`RunOk`/`StepOk`: a write puts a
    well-formed stored value into an existing non-private, byte-ordered, non-duplicate DBI, and its
    version does not lose against what is stored; a load happens below transaction id 2^64 and
    the messages have the key order of their target DBIs; nothing is assumed about success).
    Then the abstraction (`absFleet`: `absEnv` of every environment, `absSnap` of every snapshot)
    of the final state is the state the abstract fleet reaches from the abstraction of the
    initial state by the abstract schedule `absRun` — the abstract steps of those byte-level steps
    that took place, in order —; the invariant holds again; and the abstract schedule is one the
    theorems of LsProps/C01.lean apply to: the written versions are well-formed (`StepsWF`) and no
    write loses against what its instance holds (`MonotoneFrom`), the abstract fleet is
    well-formed (`FleetWF`). -/
theorem C01_native_run_refines (c : Cfg) (hn : c.native = true) (hro : c.receiveOnly = false)
    (steps : List BStep) (f : BFleet) (hinv : BInv f) (hok : RunOk c f steps) :
    absFleet (brun c f steps) = Abs.run (absFleet f) (absRun c f steps) ∧
    BInv (brun c f steps) ∧
    Abs.StepsWF (absRun c f steps) ∧ Abs.MonotoneFrom (absFleet f) (absRun c f steps) ∧
    Abs.FleetWF (absFleet f) := by
  obtain ⟨h1, h2, h3, h4⟩ := brun_refines c hn hro steps f hinv hok
  exact ⟨h1, h2, h3, h4, absFleet_wf hinv⟩

/-! ## (E) a concrete instance (the hypotheses are satisfiable) -/

namespace Example

/-- a 24-byte header: timestamp `ts`, local transaction id 42, flags `fl`, no extension block -/
def hdr (ts fl : UInt8) : Bytes :=
  [0, 0, 0, 0, 0, 0, 0, ts] ++ [0, 0, 0, 0, 0, 0, 0, 42] ++ [0, fl, 0, 0, 0, 0, 0, 0]

def cfg : Cfg := { native := true, hack := false, pad := false, receiveOnly := false, override := [] }

def app : Bytes := strBytes "app"
def new : Bytes := strBytes "new"

/-- a native environment: DBI `app` with key `[1]` (timestamp 5, value "A") and key `[2]`
    (timestamp 6, value "B"), and a private DBI whose content has no header at all -/
def env : Env :=
  { dbis := [
      { name := strBytes "_sync_meta", flags := 0, kvs := [([1], [9, 9, 9])] },
      { name := app, flags := 0, kvs := [([1], hdr 5 0 ++ [65]), ([2], hdr 6 0 ++ [66])] } ],
    lastTxn := 7 }

/-- a version-3 snapshot: for `app` a newer version of `[1]` (timestamp 9, "X"), an older version
    of `[2]` (timestamp 4, "Y") and the new key `[3]` (a deletion marker, timestamp 8); and a
    message for the DBI `new`, which does not exist yet -/
def snap : Snap :=
  { fv := 3, cv := 1, dbs := [
      { name := app, flags := 0, transform := [], entries := [
          { key := [1], val := [88], ts := 9, flags := 0 },
          { key := [2], val := [89], ts := 4, flags := 0 },
          { key := [3], val := [], ts := 8, flags := 1 } ] },
      { name := new, flags := 0, transform := [], entries := [
          { key := [7], val := [90], ts := 3, flags := 0 } ] } ] }

def keys : List Abs.Key := [(app, [1]), (app, [2]), (app, [3]), (app, [4]), (new, [7])]

/-- the hypotheses of `C01_load_refines_native` hold -/
example : cfg.native = true ∧ env.lastTxn + 1 < two64 ∧ EnvWF env ∧ SnapWF cfg env snap := by
  decide +kernel

/-- the content before, and the snapshot's content -/
example :
    keys.map (absEnv env) =
      [some ⟨5, false, [65]⟩, some ⟨6, false, [66]⟩, none, none, none] ∧
    keys.map (absSnap snap) =
      [some ⟨9, false, [88]⟩, some ⟨4, false, [89]⟩, some ⟨8, true, []⟩, none, some ⟨3, false, [90]⟩] := by
  decide +kernel

/-- `loadOnce` succeeds, and both sides of `C01_load_refines_native` at those keys: the newer
    version replaces, the older one loses, the new key and the new DBI appear -/
example :
    ((loadOnce cfg env snap 7 0 0).toOption.map fun r => keys.map (absEnv r.env)) =
      some [some ⟨9, false, [88]⟩, some ⟨6, false, [66]⟩, some ⟨8, true, []⟩, none, some ⟨3, false, [90]⟩] ∧
    keys.map ((absEnv env).join (absSnap snap)) =
      [some ⟨9, false, [88]⟩, some ⟨6, false, [66]⟩, some ⟨8, true, []⟩, none, some ⟨3, false, [90]⟩] ∧
    ((loadOnce cfg env snap 7 0 0).toOption.map fun r => decide (EnvWF r.env)) = some true := by
  decide +kernel

/-- `sendOnce` on that environment: the hypotheses of `C01_send_refines_native` hold and the
    snapshot's content is the environment's -/
example :
    cfg.receiveOnly = false ∧
    ((sendOnce cfg env 0 0).toOption.map fun r => (keys.map (absSnap r.snap), decide (SnapOk r.snap))) =
      some (keys.map (absEnv env), true) := by
  decide +kernel

/-- a two-instance fleet: instance 0 holds `env`, instance 1 is empty -/
def fleet : BFleet :=
  { n := 2, env := fun i => if i = 0 then env else { dbis := [], lastTxn := 0 }, bucket := [] }

def steps : List BStep := [.send 0 0 0, .load 1 0 0 0]

/-- the hypotheses of `C01_native_run_refines` hold for: instance 0 sends, instance 1 loads -/
example : BInv fleet ∧ RunOk cfg fleet steps := by
  refine ⟨⟨?_, fun p hp => by cases hp⟩, trivial, ⟨by decide +kernel, ?_⟩, trivial⟩
  · intro i
    by_cases hi : i = 0
    · subst hi; exact (by decide +kernel : EnvWF env)
    · simp only [fleet, hi, if_false]; decide +kernel
  · intro p hp
    have hb : (bstep cfg fleet (.send 0 0 0)).bucket[0]? =
        some (0, { fv := 3, cv := 1, dbs := [
          { name := app, flags := 0, transform := [], entries := [
              { key := [1], val := [65], ts := 5, flags := 0 },
              { key := [2], val := [66], ts := 6, flags := 0 } ] } ] }) := by decide +kernel
    rw [hb] at hp
    injection hp with hp
    subst hp
    decide +kernel

/-- … and afterwards instance 1 holds what instance 0 holds -/
example : keys.map (absEnv ((brun cfg fleet steps).env 1)) = keys.map (absEnv env) := by
  decide +kernel

end Example

end Ls.C01
