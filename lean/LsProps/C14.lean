import LsLemmas.Merge
/-
  C14 — Values written by Lightning Stream always carry a well-formed header.
  Property theorems only; helper lemmas live in LsLemmas.
-/
namespace Ls.C14
open Ls Ls.Header Ls.Merge

/-- Decidable well-formedness of a value written by Lightning Stream's iterator with write
    transaction id `txn` (padding option `pad`): version-0 header, that transaction id, only
    synced flags, reserved bytes zero, extension count matching the bytes present (0, or 1
    all-zero block under the padding option), followed by exactly `app`, empty when deleted. -/
def WrittenWF (txn : Nat) (pad : Bool) (r : Bytes) (ts : Nat) (fl : UInt8) (app : Bytes) : Prop :=
  r = be64 ts ++ be64 txn ++ [0, fl, 0, 0, 0, 0, 0, if pad then 1 else 0]
        ++ (if pad then [0, 0, 0, 0, 0, 0, 0, 0] else []) ++ app
  ∧ fl &&& ~~~ (UInt8.ofNat Gen.flagSyncMask) = 0
  ∧ (isDeleted fl = true → app = [])

/-- PutBasic followed by a value parses back to exactly what was put (any ts, txn id, flag byte,
    value). -/
theorem C14_put_parse (ts txn : Nat) (fl : UInt8) (v : Bytes) (hts : ts < two64) (htx : txn < two64) :
    parse (putBasic ts txn fl ++ v)
      = .ok ({ ts := ts, txn := txn, version := 0, flags := fl, numExtra := 0, extra := [] }, v) :=
  parse_putBasic ts txn fl v hts htx

theorem C14_numExtra_range (b : Bytes) : getNumExtra b ≤ 65535 := by
  unfold getNumExtra
  have h := beNat_lt (slice b Gen.numExtraOffsetHigh (Gen.numExtraOffsetHigh + 2))
  have hl : (slice b Gen.numExtraOffsetHigh (Gen.numExtraOffsetHigh + 2)).length ≤ 2 := by
    simp [slice, Gen.numExtraOffsetHigh]; omega
  have : 256 ^ (slice b Gen.numExtraOffsetHigh (Gen.numExtraOffsetHigh + 2)).length ≤ 256 ^ 2 :=
    Nat.pow_le_pow_right (by decide) hl
  omega

/-- `Parse` is total and decides exactly as documented, for every byte string:
    too short / wrong version / truncated extension blocks are errors, otherwise the
    application value is what follows all `n` extension blocks, n = 0..65535. -/
theorem C14_parse_total (b : Bytes) :
    (b.length < 24 → parse b = .error .tooShort) ∧
    (24 ≤ b.length → b.getD 16 0 ≠ 0 → parse b = .error .version) ∧
    (24 ≤ b.length → b.getD 16 0 = 0 → b.length < 24 + 8 * getNumExtra b →
        parse b = .error .tooShort) ∧
    (24 ≤ b.length → b.getD 16 0 = 0 → 24 + 8 * getNumExtra b ≤ b.length →
        ∃ h, parse b = .ok (h, b.drop (24 + 8 * getNumExtra b)) ∧
          h.ts = beNat (slice b 0 8) ∧ h.txn = beNat (slice b 8 16) ∧ h.version = 0 ∧
          h.flags = b.getD 17 0 ∧ h.numExtra = getNumExtra b) := by
  refine ⟨?_, ?_, ?_, ?_⟩
  · intro h; simp [parse, h]
  · intro h hv
    have : ¬ b.length < 24 := by omega
    have hv' : ¬ b[16]?.getD 0 = 0 := by simpa using hv
    simp [parse, this, Gen.versionOffset, hv']
  · intro h hv ht
    have h1 : ¬ b.length < 24 := by omega
    have h2 : 0 < getNumExtra b := by omega
    have hv' : b[16]?.getD 0 = 0 := by simpa using hv
    simp [parse, h1, Gen.versionOffset, hv', h2, ht]
  · intro h hv ht
    have h1 : ¬ b.length < 24 := by omega
    have h3 : ¬ (0 < getNumExtra b ∧ b.length < 24 + 8 * getNumExtra b) := by omega
    simp only [parse, hsz_eq, bsz_eq, h1, if_false, Gen.versionOffset, hv, ne_eq, not_true_eq_false,
      gt_iff_lt, h3]
    exact ⟨_, rfl, rfl, rfl, by simp, rfl, rfl⟩

/-- `Skip` agrees with `Parse` on every input. -/
theorem C14_skip_agrees (b : Bytes) : skip b = (parse b).map (·.2) := by
  unfold skip parse
  split <;> try rfl
  split <;> try rfl
  dsimp only
  split <;> rfl

/-- Every value `Merge` returns that is not the stored value itself is well-formed: header with
    the iterator's (= the write transaction's) id, synced flags only, reserved zero, extension
    count matching, followed by exactly the application value (empty when deleted). -/
theorem C14_written_wf (c : Cfg) (e : KV) (old r : Bytes)
    (h : merge c e old = .ok (some r)) (hne : r ≠ old) :
    ∃ ts fl app, WrittenWF c.txn c.pad r ts fl app ∧ (isDeleted fl = false → app = e.val) := by
  rcases merge_result c e old r h with h | h
  · exact absurd h hne
  · refine ⟨_, effFlags c e.val (maskedFlags e), _, ⟨h.trans (addHeader_eq ..), ?_, ?_⟩, ?_⟩
    · exact effFlags_in_mask _ _ _ (masked_in_mask _)
    · intro hd; rw [if_pos hd]
    · intro hd; rw [hd]; rfl

/-- The same for `Clean` (shadow capture of an application-side deletion): a deletion marker. -/
theorem C14_clean_wf (c : Cfg) (old r : Bytes)
    (h : clean c old = .ok (some r)) (hne : r ≠ old) :
    ∃ ts fl, WrittenWF c.txn c.pad r ts fl [] ∧ isDeleted fl = true := by
  rcases clean_result c old r h with h | h
  · exact absurd h hne
  · have hd : isDeleted (effFlags c [] (UInt8.ofNat Gen.flagDeleted)) = true := by
      unfold effFlags; split <;> decide
    refine ⟨if (0:Nat) = 0 then c.defTs else 0, effFlags c [] (UInt8.ofNat Gen.flagDeleted), ⟨?_, ?_, fun _ => rfl⟩, hd⟩
    · rw [h, addHeader_eq, if_pos hd]
    · exact effFlags_in_mask _ _ _ flagDeleted_in_mask

/-- A well-formed written value is read back by `Parse` as exactly (ts, txn, flags, app):
    the independent reader of the documented format sees what was written — also with the
    padding extension block. -/
theorem C14_wf_parses (txn : Nat) (pad : Bool) (r : Bytes) (ts : Nat) (fl : UInt8) (app : Bytes)
    (hts : ts < two64) (htx : txn < two64) (h : WrittenWF txn pad r ts fl app) :
    ∃ hd, parse r = .ok (hd, app) ∧ hd.ts = ts ∧ hd.txn = txn ∧ hd.flags = fl ∧ hd.version = 0
      ∧ hd.numExtra = (if pad then 1 else 0) := by
  obtain ⟨hr, _, _⟩ := h
  have h1 := beNat_be64 ts hts
  have h2 := beNat_be64 txn htx
  obtain ⟨a0, a1, a2, a3, a4, a5, a6, a7, ha⟩ := list_len8 (be64 ts) (be64_length ts)
  obtain ⟨b0, b1, b2, b3, b4, b5, b6, b7, hb⟩ := list_len8 (be64 txn) (be64_length txn)
  rw [ha] at h1; rw [hb] at h2
  subst hr
  have h1' : ((((((a0.toNat * 256 + a1.toNat) * 256 + a2.toNat) * 256 + a3.toNat) * 256 + a4.toNat) * 256 +
      a5.toNat) * 256 + a6.toNat) * 256 + a7.toNat = ts := by simpa [beNat] using h1
  have h2' : ((((((b0.toNat * 256 + b1.toNat) * 256 + b2.toNat) * 256 + b3.toNat) * 256 + b4.toNat) * 256 +
      b5.toNat) * 256 + b6.toNat) * 256 + b7.toNat = txn := by simpa [beNat] using h2
  cases pad
  · simp [parse, getNumExtra, slice, Gen.versionOffset, Gen.flagsOffset, Gen.numExtraOffsetHigh,
      Gen.minHeaderSize, Gen.blockSize, hsz, bsz, ha, hb, beNat]
    rw [if_neg (by omega)]
    exact ⟨_, rfl, h1', h2', rfl, rfl, rfl⟩
  · simp [parse, getNumExtra, slice, Gen.versionOffset, Gen.flagsOffset, Gen.numExtraOffsetHigh,
      Gen.minHeaderSize, Gen.blockSize, hsz, bsz, ha, hb, beNat]
    rw [if_neg (by omega)]
    exact ⟨_, rfl, h1', h2', rfl, rfl, rfl⟩

/-- non-vacuity: a concrete merge that writes a new value -/
example : ∃ r, merge { fv := 3, defTs := 0, txn := 9, cutoff := 0, pad := false }
    { key := [0x6b], val := [0x61], ts := 5, flags := 0 } [] = .ok (some r) ∧ r ≠ [] := by
  refine ⟨_, rfl, ?_⟩; decide

end Ls.C14
