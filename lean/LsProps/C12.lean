import LsLemmas.CleanerHist
import LsLemmas.CleanerWitness
/-
  C12 — The snapshot cleaner never deletes what is still needed.
  Model: LsModel/Cleaner.lean (`Worker.RunOnce` / `SetCommitted` of syncer/cleaner/cleaner.go as they are in
  /repo). Vocabulary of the statements: LsModel/CleanerSpec.lean. Property theorems only.

  Histories are arbitrary lists of events (`Ev.run now listing deleteFails`, `Ev.commit m`) folded from
  `cleaner.New`; nothing bounds the number of runs, instances or snapshots; `ParseName` is an arbitrary
  function; the interval configuration is arbitrary (also zero and negative); `now` is arbitrary in every
  theorem except `C12_newest_protected_partial`, which needs a clock that does not go backwards — and
  `C12_newest_deleted_when_clock_goes_back` shows that this hypothesis cannot be dropped.
-/
namespace Ls.C12
open Ls Ls.Cleaner

variable (parse : Parse) (cfg : Cfg)

/-- The cleaner only ever passes to `Delete` names of the listing it was just given that `ParseName`
    accepts as snapshots; if the store's `List(prefix)` only returns names with the prefix (`db__`), they
    carry the prefix. Holds in every state (hence after every history). -/
theorem C12_only_listed_snapshots (st : St) (now : Int) (l : Option (List String))
    (df : String → Bool) (n : String)
    (h : n ∈ (runOnce parse cfg st now l df).2.delCalls) :
    ∃ names, l = some names ∧ n ∈ names ∧ (∃ i, IsSnap parse n i) ∧
      (HasPrefix cfg.pfx names → cfg.pfx.isPrefixOf n = true) := by
  obtain ⟨_, names, rfl, c, hc, rfl⟩ := mem_delCalls h
  have hs := candidates_isSnap (toDelete_sub hc)
  exact ⟨names, rfl, hs.1, ⟨_, hs.2⟩, fun hp => hp _ hs.1⟩

/-- What the `since` observer of the statements below is: `none` at the start; a run with a listing
    keeps the recorded time of every name that stays listed, records `now` for every newly listed name and
    forgets every name not listed; a run whose List fails and a SetCommitted change nothing. -/
theorem C12_since_characterisation (h : List Ev) (now : Int) (l : List String) (df : String → Bool)
    (m : List (String × Int)) (n : String) :
    since [] n = none ∧
    since (h ++ [Ev.run now (some l) df]) n =
      (if n ∈ l then (match since h n with | some t => some t | none => some now) else none) ∧
    since (h ++ [Ev.run now none df]) n = since h n ∧
    since (h ++ [Ev.commit m]) n = since h n :=
  ⟨rfl, since_run h now l df n, by rw [since_listFails], by rw [since_commit]⟩

/-- Keep interval. After any history, a run never passes to `Delete` a name that the cleaner sees for the
    first time in this run (`since h n = none`: it was not in the previous listing it was given), nor one it
    first saw `mustKeep` or less ago. (`l.Nodup`: a store listing names every blob once.) -/
theorem C12_keep_interval (h : List Ev) (now : Int) (l : List String) (df : String → Bool) (n : String)
    (hnd : l.Nodup)
    (hdel : n ∈ (runOnce parse cfg (exec parse cfg h) now (some l) df).2.delCalls) :
    ∃ t, since h n = some t ∧ now - t > cfg.mustKeep := by
  obtain ⟨he, names, hl, c, hc, rfl⟩ := mem_delCalls hdel
  cases hl
  obtain ⟨t, ht, hgt⟩ := toDelete_keep (candidates_nodup' hnd) hc
  have hs := candidates_isSnap (toDelete_sub hc)
  rw [(inv he h).seen _ _ hs.2] at ht
  exact ⟨t, ht, hgt⟩

/-- Newest snapshot. Assume the clock handed to the runs never went backwards, snapshots appeared in
    timestamp order per instance, and the snapshots of one instance in the current listing have distinct
    timestamps. Then the newest listed snapshot of an instance is passed to `Delete` only if it is older
    than `removeOld` and not newer than the time recorded by SetCommitted for its instance.
    `_partial`: the property quantifies over all clock schedules, the monotone clock is an extra
    hypothesis; see `C12_newest_deleted_when_clock_goes_back`. -/
theorem C12_newest_protected_partial (h : List Ev) (now : Int) (l : List String) (df : String → Bool)
    (n : String) (i : Info)
    (hclock : MonotoneClock (h ++ [Ev.run now (some l) df]))
    (horder : AppearInOrder parse (h ++ [Ev.run now (some l) df]))
    (hdist : DistinctTimes parse l)
    (hnew : Newest parse l n i)
    (hdel : n ∈ (runOnce parse cfg (exec parse cfg h) now (some l) df).2.delCalls) :
    now - i.ts > cfg.removeOld ∧
      ∃ t, getCommitted (exec parse cfg h) i.inst = some t ∧ i.ts ≤ t := by
  obtain ⟨he, names, hl, c, hc, rfl⟩ := mem_delCalls hdel
  cases hl
  have hcs := candidates_isSnap (toDelete_sub hc)
  have hpi : parse c.name = some i := hnew.1.1
  have hci : c.inst = i.inst ∧ c.ts = i.ts := by
    have := hcs.2.1; rw [hpi] at this; cases this; exact ⟨rfl, rfl⟩
  have hI := inv (parse := parse) he h
  have hres := toDelete_newest (candidates_nodup hdist) (candidates_distinct hdist) hc
    (by
      intro e he' hne hinst
      have hes := candidates_isSnap he'
      have := hnew.2 e.name _ hes.1 hne hes.2 (by rw [← hci.1]; exact hinst)
      rw [hci.2]; exact this)
    (by
      intro e he' hinst hlt t u ht hu
      have hes := candidates_isSnap he'
      rw [hI.seen _ _ hes.2] at ht
      rw [hI.seen _ _ hcs.2] at hu
      exact since_ordered h hclock.prefix horder.prefix e.name c.name _ _ t u hes.2 hcs.2 hinst hlt ht hu)
  refine ⟨by rw [← hci.2]; exact hres.1, ?_⟩
  have hp := hres.2
  unfold provenMerged at hp
  unfold getCommitted
  rw [← hci.1, ← hci.2]
  cases hlk : look c.inst (exec parse cfg h).committed with
  | none => rw [hlk] at hp; cases hp
  | some t => rw [hlk] at hp; exact ⟨t, rfl, by simpa using hp⟩

/-- What GetCommitted returns was passed to SetCommitted for that instance earlier in the history … -/
theorem C12_committed_provenance (h : List Ev) (inst : String) (t : Int)
    (hc : getCommitted (exec parse cfg h) inst = some t) :
    ∃ m, Ev.commit m ∈ h ∧ (inst, t) ∈ m :=
  committed_provenance h inst t hc

/-- … entries are never removed (`maps.Copy`), and a SetCommitted that mentions the instance (once)
    overwrites it. -/
theorem C12_committed_update (h h' : List Ev) (inst : String) (m : List (String × Int)) (t : Int) :
    ((getCommitted (exec parse cfg h) inst).isSome = true →
      (getCommitted (exec parse cfg (h ++ h')) inst).isSome = true) ∧
    ((inst, t) ∈ m → (∀ u, (inst, u) ∈ m → u = t) →
      getCommitted (exec parse cfg (h ++ [Ev.commit m])) inst = some t) := by
  constructor
  · intro hs
    unfold getCommitted at hs ⊢
    rw [exec_append]
    exact committed_stays inst h' _ hs
  · intro hm hu
    unfold getCommitted
    rw [exec_snoc]
    exact look_pushAll_last inst t m _ hm hu

/-- Superseded snapshots are removed. In a run of an enabled cleaner whose List succeeds: a listed snapshot
    `a` for which a newer snapshot `b` of the same instance is listed, both first seen more than `mustKeep`
    ago, is passed to `Delete` (and deleted unless that `Delete` fails) — whatever the clock did before,
    whatever else is listed. "Eventually": this is the first such run after `since + mustKeep` has passed
    for both; that runs keep happening and the clock advances is the environment's part. -/
theorem C12_superseded_removed (h : List Ev) (now : Int) (l : List String) (df : String → Bool)
    (a b : String) (i j : Info) (ta tb : Int) (he : cfg.enabled = true)
    (ha : a ∈ l) (hb : b ∈ l) (hsa : IsSnap parse a i) (hsb : IsSnap parse b j)
    (hinst : j.inst = i.inst) (hts : i.ts < j.ts)
    (hta : since h a = some ta) (hga : now - ta > cfg.mustKeep)
    (htb : since h b = some tb) (hgb : now - tb > cfg.mustKeep) :
    a ∈ (runOnce parse cfg (exec parse cfg h) now (some l) df).2.delCalls ∧
      (df a = false → a ∈ (runOnce parse cfg (exec parse cfg h) now (some l) df).2.deleted) := by
  have hI := inv (parse := parse) he h
  have hnig : ∀ n k, IsSnap parse n k → n ∉ (exec parse cfg h).ignored := by
    intro n k hs hin
    have := hI.ignored n hin
    rw [hs.1] at this; cases this
  have hca := candidate_of_isSnap (st := exec parse cfg h) ha hsa (hnig _ _ hsa)
  have hcb := candidate_of_isSnap (st := exec parse cfg h) hb hsb (hnig _ _ hsb)
  have hdel := toDelete_superseded (cfg := cfg) (now := now) hca hcb hinst hts
    (by rw [hI.seen _ _ hsa]; exact hta) hga (by rw [hI.seen _ _ hsb]; exact htb) hgb
  have hmem : a ∈ (runOnce parse cfg (exec parse cfg h) now (some l) df).2.delCalls := by
    rw [runOnce_some he]
    exact List.mem_map_of_mem (f := (·.name)) hdel
  refine ⟨hmem, fun hdf => ?_⟩
  rw [runOnce_some he] at hmem ⊢
  exact List.mem_filter.mpr ⟨hmem, by simp [hdf]⟩

/-- Bounded. After a run of an enabled cleaner in which List and every Delete succeed, at most one listed
    snapshot per instance that the cleaner has been seeing for longer than `mustKeep` is left — besides it
    only snapshots inside the keep window or first seen in this run remain. (With a bounded upload rate
    per instance the number of files per instance is therefore bounded; the rate is the environment's.) -/
theorem C12_bounded (h : List Ev) (now : Int) (l : List String) (df : String → Bool)
    (a b : String) (i j : Info) (ta tb : Int) (he : cfg.enabled = true)
    (hdist : DistinctTimes parse l) (hdf : ∀ n, df n = false)
    (ha : a ∈ l) (hb : b ∈ l) (hsa : IsSnap parse a i) (hsb : IsSnap parse b j)
    (hinst : i.inst = j.inst)
    (hta : since h a = some ta) (hga : now - ta > cfg.mustKeep)
    (htb : since h b = some tb) (hgb : now - tb > cfg.mustKeep)
    (hla : a ∉ (runOnce parse cfg (exec parse cfg h) now (some l) df).2.deleted)
    (hlb : b ∉ (runOnce parse cfg (exec parse cfg h) now (some l) df).2.deleted) :
    a = b := by
  refine Classical.byContradiction fun hne => ?_
  have hts : i.ts ≠ j.ts := by
    rcases pairwise_or hdist ha hb hne with hr | hr
    · exact hr i j hsa hsb hinst
    · exact fun e => hr j i hsb hsa hinst.symm e.symm
  rcases Int.lt_or_gt_of_ne hts with hlt | hgt
  · exact hla ((C12_superseded_removed parse cfg h now l df a b i j ta tb he ha hb hsa hsb
      hinst.symm hlt hta hga htb hgb).2 (hdf a))
  · exact hlb ((C12_superseded_removed parse cfg h now l df b a j i tb ta he hb ha hsb hsa
      hinst hgt htb hgb hta hga).2 (hdf b))

/-- Storage errors. A failing List: nothing is deleted and the Worker's state is unchanged. Failing
    Deletes: which names `Delete` is called on and the Worker's new state do not depend on which Deletes
    fail, and exactly the calls that do not fail delete. -/
theorem C12_errors_safe (st : St) (now : Int) (l : Option (List String)) (df df' : String → Bool) :
    ((runOnce parse cfg st now none df).1 = st ∧
      (runOnce parse cfg st now none df).2.delCalls = [] ∧
      (runOnce parse cfg st now none df).2.deleted = []) ∧
    ((runOnce parse cfg st now l df).1 = (runOnce parse cfg st now l df').1 ∧
      (runOnce parse cfg st now l df).2.delCalls = (runOnce parse cfg st now l df').2.delCalls) ∧
    (∀ n, n ∈ (runOnce parse cfg st now l df).2.deleted ↔
      n ∈ (runOnce parse cfg st now l df).2.delCalls ∧ df n = false) := by
  cases he : cfg.enabled with
  | false => simp [runOnce_disabled he, Out.none]
  | true =>
    refine ⟨by simp [runOnce_listFails he, Out.none], ?_, ?_⟩
    · cases l with
      | none => simp [runOnce_listFails he]
      | some names => simp [runOnce_some he]
    · intro n
      cases l with
      | none => simp [runOnce_listFails he, Out.none]
      | some names => simp [runOnce_some he, List.mem_filter]

/-- Disabled (the configuration a receive-only syncer creates its cleaner with): RunOnce neither lists nor
    deletes nor changes anything, in any state, and after any history the Worker has recorded nothing. -/
theorem C12_disabled (he : cfg.enabled = false) (st : St) (now : Int) (l : Option (List String))
    (df : String → Bool) (h : List Ev) :
    runOnce parse cfg st now l df = (st, { listCalls := 0, err := false, delCalls := [], deleted := [] }) ∧
    (exec parse cfg h).firstSeen = [] ∧ (exec parse cfg h).ignored = [] :=
  ⟨runOnce_disabled he l df, (exec_disabled he h).2, (exec_disabled he h).1⟩

/-- Receive-only: the configuration `syncer.New` hands to the cleaner in receive-only mode is disabled,
    whatever the configured cleanup settings, so that Worker never lists or deletes. (That `SendOnce`
    returns before `Store` in receive-only mode belongs to the sync-loop model, not to the cleaner's.) -/
theorem C12_receive_only (cc : Cfg) (st : St) (now : Int) (l : Option (List String))
    (df : String → Bool) :
    (syncerCleanerCfg true cc).enabled = false ∧
    runOnce parse (syncerCleanerCfg true cc) st now l df
      = (st, { listCalls := 0, err := false, delCalls := [], deleted := [] }) ∧
    syncerCleanerCfg false cc = cc :=
  ⟨rfl, runOnce_disabled rfl l df, rfl⟩

/-! ### witnesses (the concrete history lives in LsLemmas/CleanerWitness.lean) -/

/-- The monotone-clock hypothesis of `C12_newest_protected_partial` cannot be dropped (behaviour of the
    unchanged code, replayed on the real Worker by the harness): "S" is first listed at clock 100, the newer
    "N" appears and is first listed at clock 50 (the clock went back), at clock 120 with `mustKeep = 30` the
    older "S" counts as recent and marks the instance, "N" does not — and `Delete` is called on "N", the
    newest snapshot of its instance, although nothing was ever committed and it is not older than
    `removeOld`. Everything else the theorem assumes holds. -/
theorem C12_newest_deleted_when_clock_goes_back :
    let h : List Ev := [Ev.run 100 (some ["S"]) (fun _ => false), Ev.run 50 (some ["N", "S"]) (fun _ => false)]
    AppearInOrder wparse (h ++ [Ev.run 120 (some ["N", "S"]) (fun _ => false)]) ∧
    DistinctTimes wparse ["N", "S"] ∧
    Newest wparse ["N", "S"] "N" ⟨"snapshot", "a", 20⟩ ∧
    ¬ MonotoneClock (h ++ [Ev.run 120 (some ["N", "S"]) (fun _ => false)]) ∧
    (runOnce wparse wcfg (exec wparse wcfg h) 120 (some ["N", "S"]) (fun _ => false)).2.delCalls = ["N"] ∧
    getCommitted (exec wparse wcfg h) "a" = none ∧ ¬ ((120 : Int) - 20 > wcfg.removeOld) := by
  refine ⟨worder 100 50 120, wdistinct, wnewest, ?_, ?_, ?_, ?_⟩
  · simp [MonotoneClock, nows]
  · simp [exec, step, runOnce, wcfg, candidates, candOf, wparse, Gen.kindSnapshot, St.init, stage1, stage2,
      toDelete, gcFirstSeen, sortCands, filter1, filter2, look, newIgnored, wsort]
  · simp [exec, step, runOnce, wcfg, getCommitted, St.init]
  · simp [wcfg]

/-- The hypotheses of the theorems above are satisfiable together, and non-vacuously: with the clock
    100, 110, 200 the same listings satisfy every assumption of `C12_newest_protected_partial`, and the
    run at 200 deletes exactly the superseded "S" (first seen 100 ago, newer "N" first seen 90 ago, keep
    interval 30) and keeps the newest "N". -/
example :
    let h : List Ev := [Ev.run 100 (some ["S"]) (fun _ => false), Ev.run 110 (some ["N", "S"]) (fun _ => false)]
    MonotoneClock (h ++ [Ev.run 200 (some ["N", "S"]) (fun _ => false)]) ∧
    AppearInOrder wparse (h ++ [Ev.run 200 (some ["N", "S"]) (fun _ => false)]) ∧
    DistinctTimes wparse ["N", "S"] ∧ ["N", "S"].Nodup ∧
    Newest wparse ["N", "S"] "N" ⟨"snapshot", "a", 20⟩ ∧
    since h "S" = some 100 ∧ since h "N" = some 110 ∧
    (runOnce wparse wcfg (exec wparse wcfg h) 200 (some ["N", "S"]) (fun _ => false)).2.deleted = ["S"] := by
  refine ⟨?_, worder 100 110 200, wdistinct, by simp, wnewest, ?_, ?_, ?_⟩
  · simp [MonotoneClock, nows]
  · simp [since, sinceStep]
  · simp [since, sinceStep]
  · simp [exec, step, runOnce, wcfg, candidates, candOf, wparse, Gen.kindSnapshot, St.init, stage1, stage2,
      toDelete, gcFirstSeen, sortCands, filter1, filter2, look, newIgnored, wsort]

end Ls.C12
