import LsLemmas.CodecSize
/-
  C08 — Hostile or corrupt snapshot blobs cannot crash, hang or block an instance (decoder part).

  The model (LsModel/Codec.lean, following /repo with finding D3 fixed) bounds-checks every Go
  slice expression (`panic`), converts `uint64` lengths to `int` by two's complement, and runs
  every loop on fuel `len + 1` (`hang`).  The theorems quantify over ALL byte strings of length
  < 2^63 (every Go slice).  The gzip container, memory use and process survival are runtime
  behaviour (harness: prop.c08.total through LoadData with per-op recover and watchdog).
-/
namespace Ls.C08
open Ls Ls.Wire Ls.Codec Ls.CodecS

/-- Loading a blob — `Snapshot.Unmarshal`, then every DBI iterated with `Next` until io.EOF, each
    entry through `KV.Unmarshal` — returns a snapshot or an error for every byte string: no slice
    expression out of range (no panic), no loop runs out of its `len + 1` iterations (no hang). -/
theorem C08_total (b : Bytes) (h63 : b.length < two63) :
    (∃ s, decodeAll b = .ok s) ∨ (∃ e, decodeAll b = .err e) := by
  rw [decodeAll_eq b h63]
  exact (safe_iff _).mp (decodeAllS_safe b)

/-- the same for each decoder taken alone, on arbitrary bytes -/
theorem C08_total_kv (b : Bytes) (h63 : b.length < two63) : (kvUnmarshal b).Safe := by
  rw [kvUnmarshal_eq b h63]; exact kvUnmarshalS_safe b

theorem C08_total_index (b : Bytes) (h63 : b.length < two63) : (indexData b).Safe := by
  rw [indexData_eq b h63]; exact indexDataS_safe b

/-- `Next` from any cursor position inside the data (also one that does not point at a field
    boundary) -/
theorem C08_total_next (b : Bytes) (h63 : b.length < two63) (cur : Nat) (hc : cur ≤ b.length) :
    (dbiNext b (cur : Int)).Safe := by
  rw [dbiNext_eq b h63 cur hc]
  exact safe_omap _ _ (nextS_safe _ _ (by simp; omega))

theorem C08_total_meta (b : Bytes) (m : Meta) : (metaUnmarshal b m).Safe := by
  rw [metaUnmarshal_eq]; exact metaUnmarshalS_safe b m

theorem C08_total_unmarshal (b : Bytes) (h63 : b.length < two63) : (snapshotUnmarshal b).Safe := by
  rw [snapshotUnmarshal_eq b h63]; exact snapshotUnmarshalS_safe b

/-- Every loop iteration consumes at least one byte: the loops are structurally recursive on a
    fuel of `len + 1` (= the maximal number of iterations) and never exhaust it; `Next` leaves a
    strictly shorter remainder behind every entry it delivers. -/
theorem C08_linear_iterations (b : Bytes) (h63 : b.length < two63) :
    kvLoop b (b.length + 1) 0 kvZero ≠ .hang ∧ idxLoop b (b.length + 1) 0 hdrZero ≠ .hang ∧
    snapLoop b (b.length + 1) 0 snapZero ≠ .hang ∧ (∀ m, metaLoop b (b.length + 1) 0 m ≠ .hang) ∧
    (∀ (cur : Nat) kv cur', cur ≤ b.length → dbiNext b (cur : Int) = .ok (some (kv, cur')) →
      (cur : Int) < cur' ∧ cur' ≤ (b.length : Int)) := by
  refine ⟨?_, ?_, ?_, ?_, ?_⟩
  · intro h; exact safe_of_eq_hang (C08_total_kv b h63) h
  · intro h; exact safe_of_eq_hang (C08_total_index b h63) h
  · intro h; exact safe_of_eq_hang (C08_total_unmarshal b h63) h
  · intro m h; exact safe_of_eq_hang (C08_total_meta b m) h
  · intro cur kv cur' hc h
    rw [dbiNext_eq b h63 cur hc] at h
    rcases hn : nextS (b.length + 1) (b.drop cur) with r | e | _ | _
    rotate_left
    · simp [hn, liftNext, omap] at h
    · simp [hn, liftNext, omap] at h
    · simp [hn, liftNext, omap] at h
    cases r with
    | none => simp [hn, liftNext, omap] at h
    | some x =>
      obtain ⟨kv1, rest⟩ := x
      obtain ⟨_, hp2, hp3, _⟩ := adv_pos hc (nextS_adv _ _ _ _ hn)
      simp only [hn, liftNext, omap, Option.map] at h
      injection h with h; injection h with h; injection h with _ h2
      subst h2
      omega

/-- Decoded keys and values alias the input: over all DBIs of a successfully loaded blob their
    total size is at most the size of the blob. -/
theorem C08_linear_size (b : Bytes) (h63 : b.length < two63) (s : Snapshot') (h : decodeAll b = .ok s) :
    allEntriesSize s.dbis ≤ b.length := by
  rw [decodeAll_eq b h63] at h
  exact decodeAllS_size b s h

/-- `C08_linear`: work and memory proportional to the input — both halves together -/
theorem C08_linear (b : Bytes) (h63 : b.length < two63) :
    (kvLoop b (b.length + 1) 0 kvZero ≠ .hang ∧ idxLoop b (b.length + 1) 0 hdrZero ≠ .hang ∧
     snapLoop b (b.length + 1) 0 snapZero ≠ .hang ∧ (∀ m, metaLoop b (b.length + 1) 0 m ≠ .hang) ∧
     (∀ (cur : Nat) kv cur', cur ≤ b.length → dbiNext b (cur : Int) = .ok (some (kv, cur')) →
       (cur : Int) < cur' ∧ cur' ≤ (b.length : Int))) ∧
    (∀ s, decodeAll b = .ok s → allEntriesSize s.dbis ≤ b.length) :=
  ⟨C08_linear_iterations b h63, fun s h => C08_linear_size b h63 s h⟩

/-- the D3 witnesses are now rejected with an error: the negative-skip entry
    `12 0b 2a f5ff…ff01` (formerly an endless loop in KV.Unmarshal) and a length of 2^63 (formerly a
    slice-bounds panic) -/
theorem C08_d3_witnesses :
    dbiEntries [0x12, 0x0b, 0x2a, 0xf5, 0xff, 0xff, 0xff, 0xff, 0xff, 0xff, 0xff, 0xff, 0x01] = .err .eof ∧
    kvUnmarshal [0x0a, 0x80, 0x80, 0x80, 0x80, 0x80, 0x80, 0x80, 0x80, 0x80, 0x01] = .err .other := ⟨by rfl, by rfl⟩

/-- D10's basis at decoder level: corruption inside an entry is not seen by `Snapshot.Unmarshal`
    (what `LoadData`, and with it the downloader's validation, runs) but only by the lazy iteration:
    snapshot { databases { name:"d" entries:<ff> } } unmarshals fine and fails in `Next`. -/
theorem C08_lazy_corrupt_witness :
    (∃ s, snapshotUnmarshal [0x1a, 0x06, 0x0a, 0x01, 0x64, 0x12, 0x01, 0xff] = .ok s) ∧
    decodeAll [0x1a, 0x06, 0x0a, 0x01, 0x64, 0x12, 0x01, 0xff] = .err .eof := ⟨⟨_, by rfl⟩, by rfl⟩

/-- non-vacuity: the two outcomes both occur -/
example : decodeAll [0x08, 0x03] = .ok { formatVersion := 3, compatVersion := 0, info := metaZero, dbis := [] } := by rfl
example : decodeAll [0xff] = .err .eof := by rfl

end Ls.C08
