import LsLemmas.TxnMirrorWF
/-
  C11 — Shadow mode mirrors application data faithfully in both directions.
  Model: LsModel/Txn.lean (`mainToShadow`, `shadowToMain`, `loadOnce`) on top of
  LsModel/Strategy.lean (IterUpdate / Update) and LsModel/Merge.lean (NativeIterator / PlainIterator).
  Property theorems only; helper lemmas are in LsLemmas/TxnMirror*.lean.

  Reading guide.
  * A DBI's content is read with `Lmdb.get ik kvs k` in the DBI's own key order
    (`ik = isIntKey flags`: byte-wise, or MDB_INTEGERKEY); together with `Sorted ik kvs` this
    determines the content (`C19_cmp_bytes` / `C19_cmp_int`: equivalence of keys is equality).
  * Well-formedness is local to the DBI a statement is about: `Sorted ik kvs` and `DKeysOK kvs`
    (keys of 1..511 bytes) for the application DBI and for its shadow, and the shadow having the
    application DBI's integer-key flag. Of the environment only `DistinctNames` is needed. Other
    DBIs may be arbitrary (also duplicate-keys DBIs), as long as the pass succeeds.
  * `liveBytes now txn v` / `markerBytes now txn` are the 24-byte header `PutBasic now txn flags`
    followed by the value / by nothing (`C11_capture_bytes`).
  * Known finding D7 (not fixed): a zero-length application value is captured as a live empty
    version and then removed from the application DBI by the projection; an empty value written
    over a marker is not captured (clause (a) of `C11_capture` applies to it: the marker's value
    is empty too). Hence the mirror theorems speak of `projVal` (the value behind the header,
    nothing when empty) and become "exactly the live entries" under the hypothesis that live
    shadow values are non-empty (`C11_project_live`). Negative witness: `C11_empty_value_witness`.
-/
namespace Ls.C11
open Ls Ls.Lmdb Ls.Strategy Ls.Merge Ls.Txn

/-! ## 1. capture: `mainToShadow` -/

/-- **Capture.** `mainToShadow c w txnID now cutoff` succeeded; `d` is a non-duplicate-keys
    application DBI named `n`, `sd = shadowOf w n d` its shadow (the existing one, or — when missing
    — a new empty one carrying only the integer-key bit of `d`'s flags). Under the shared-clock
    assumption (`now` above every timestamp stored in the shadow) the new shadow DBI has the same
    name and flags, is sorted with valid keys, and for every key `k`:
    (a) the application value is the value behind the stored header ⇒ stored bytes untouched
        (same timestamp);
    (b) the application has `k ↦ v` and the shadow has no entry (or an empty one), or an entry whose
        value differs from `v` (in particular a marker, when `v ≠ []`) ⇒ `liveBytes now txnID v`,
        i.e. `(now, live, v)` with a well-formed header carrying `txnID` (`C11_capture_bytes`);
    (c) `k` missing from the application and the shadow entry live ⇒ `markerBytes now txnID`, i.e.
        `(now, deleted, ∅)`;
    (d) `k` missing and the shadow entry already a marker ⇒ untouched;
    (e) `k` in neither ⇒ absent.
    (Every stored shadow value falls under one of the cases: a successful pass has parsed it.) -/
theorem C11_capture (c : Txn.Cfg) (w w' : W) (txnID now cutoff : Nat) (n : Bytes) (d : Dbi)
    (hdist : DistinctNames w.dbis) (h : mainToShadow c w txnID now cutoff = .ok w')
    (hp : isPrivate n = false) (hd : findDbi w.dbis n = some d) (hnd : isDupSort d.flags = false)
    (hik : isIntKey (shadowOf w n d).flags = isIntKey d.flags)
    (hA : Sorted (isIntKey d.flags) d.kvs) (hAK : DKeysOK d.kvs)
    (hS : Sorted (isIntKey d.flags) (shadowOf w n d).kvs) (hSK : DKeysOK (shadowOf w n d).kvs)
    (hclock : ∀ p ∈ (shadowOf w n d).kvs, ∀ hd v, Header.parse p.2 = .ok (hd, v) → hd.ts < now) :
    ∃ kvs', findDbi w'.dbis (shadowName n) = some { shadowOf w n d with kvs := kvs' } ∧
      Sorted (isIntKey d.flags) kvs' ∧ DKeysOK kvs' ∧
      ∀ k,
        let appv := get (isIntKey d.flags) d.kvs k
        let stored := get (isIntKey d.flags) (shadowOf w n d).kvs k
        let new := get (isIntKey d.flags) kvs' k
        (∀ v old hd, appv = some v → stored = some old → Header.parse old = .ok (hd, v) → new = some old) ∧
        (∀ v, appv = some v → stored.getD [] = [] → new = some (liveBytes now txnID v)) ∧
        (∀ v old hd a, appv = some v → stored = some old → Header.parse old = .ok (hd, a) → a ≠ v →
          new = some (liveBytes now txnID v)) ∧
        (∀ old hd a, appv = none → stored = some old → Header.parse old = .ok (hd, a) →
          Header.isDeleted hd.flags = false → new = some (markerBytes now txnID)) ∧
        (∀ old hd a, appv = none → stored = some old → Header.parse old = .ok (hd, a) →
          Header.isDeleted hd.flags = true → new = some old) ∧
        (appv = none → stored = none → new = none) := by
  obtain ⟨kvs', hf, hrest⟩ := mainToShadow_nondup hdist h hp hd hnd
  rw [hik] at hrest
  obtain ⟨hS', hK', hget⟩ := hrest hA hAK hS hSK
  refine ⟨kvs', hf, hS', hK', fun k => ?_⟩
  have hk := hget k
  refine ⟨?_, ?_, ?_, ?_, ?_, ?_⟩
  · intro v old hd' ha hs hpr
    rw [ha, hs, capture_unchanged txnID now cutoff v old hd' hpr] at hk
    exact (Except.ok.inj hk).symm
  · intro v ha hs
    rw [ha, capture_new txnID now cutoff v _ hs] at hk
    exact (Except.ok.inj hk).symm
  · intro v old hd' a ha hs hpr hne
    obtain ⟨k', hmem, _⟩ := get_some_mem hs
    have hts := hclock (k', old) hmem hd' a hpr
    rw [ha, hs, capture_changed txnID now cutoff v old a hd' hpr hne hts] at hk
    exact (Except.ok.inj hk).symm
  · intro old hd' a ha hs hpr hlive
    rw [ha, hs, capture_deleted txnID now cutoff old a hd' hpr hlive] at hk
    exact (Except.ok.inj hk).symm
  · intro old hd' a ha hs hpr hdel
    rw [ha, hs, capture_marker_kept txnID now cutoff old a hd' hpr hdel] at hk
    exact (Except.ok.inj hk).symm
  · intro ha hs
    rw [ha, hs] at hk
    exact (Except.ok.inj hk).symm

/-- What the capture writes: `liveBytes now txn v` is the header `PutBasic now txn 0` followed by
    `v`; it parses back to timestamp `now`, transaction id `txn`, version 0, no flags, no extension
    blocks, application value `v`, i.e. the logical version `(now, live, v)`. `markerBytes now txn`
    is the bare 24-byte header with the deleted flag: `(now, deleted, ∅)`. (Header layout: C14.) -/
theorem C11_capture_bytes (now txn : Nat) (v : Bytes) (hn : now < two64) (ht : txn < two64) :
    liveBytes now txn v = Header.putBasic now txn 0 ++ v ∧
    Header.parse (liveBytes now txn v) =
      .ok ({ ts := now, txn := txn, version := 0, flags := 0, numExtra := 0, extra := [] }, v) ∧
    decodeS (liveBytes now txn v) = .ok (some { ts := now, del := false, val := v }) ∧
    markerBytes now txn = Header.putBasic now txn (UInt8.ofNat Gen.flagDeleted) ∧
    (markerBytes now txn).length = 24 ∧
    decodeS (markerBytes now txn) = .ok (some { ts := now, del := true, val := [] }) :=
  ⟨rfl, parse_liveBytes now txn v hn ht, decodeS_liveBytes now txn v hn ht, rfl,
   Header.putBasic_length now txn _, decodeS_markerBytes now txn hn ht⟩

/-- **Capture writes nothing else.** `mainToShadow` never writes an application DBI, and the only
    DBIs it writes (or creates) are the shadows of the application DBIs present: every other name —
    application DBIs, private non-shadow DBIs — is looked up exactly as before; distinct names stay
    distinct. -/
theorem C11_capture_frame (c : Txn.Cfg) (w w' : W) (txnID now cutoff : Nat)
    (h : mainToShadow c w txnID now cutoff = .ok w') :
    (∀ x, isPrivate x = false → findDbi w'.dbis x = findDbi w.dbis x) ∧
    (∀ x, (∀ m ∈ dbiNames w, isPrivate m = false → x ≠ shadowName m) →
      findDbi w'.dbis x = findDbi w.dbis x) ∧
    (DistinctNames w.dbis → DistinctNames w'.dbis) :=
  ⟨fun x hx => mainToShadow_app_unchanged h x hx, (mainToShadow_frame h).2, (mainToShadow_frame h).1⟩

/-! ## 2. projection: `shadowToMain` -/

/-- **Projection.** After a successful `shadowToMain c w` the set of DBIs is unchanged, no private
    DBI (shadow DBIs included) is changed, and every non-duplicate-keys application DBI `n` keeps
    its name and flags and contains exactly `{k ↦ v | the shadow value of k has the bytes v ≠ []
    behind its header}` (`projVal`) — nothing else is in it. (Every value of its shadow has a
    parsable header, or the pass would have failed.) -/
theorem C11_project (c : Txn.Cfg) (w w' : W) (hdist : DistinctNames w.dbis)
    (h : shadowToMain c w = .ok w') :
    dbiNames w' = dbiNames w ∧
    (∀ p, isPrivate p = true → findDbi w'.dbis p = findDbi w.dbis p) ∧
    ∀ n d, isPrivate n = false → findDbi w.dbis n = some d → isDupSort d.flags = false →
      ∃ sd kvs', findDbi w.dbis (shadowName n) = some sd ∧
        findDbi w'.dbis n = some { d with kvs := kvs' } ∧
        (∀ p ∈ sd.kvs, ∃ hd v, Header.parse p.2 = .ok (hd, v)) ∧
        (Sorted (isIntKey d.flags) d.kvs → DKeysOK d.kvs →
         Sorted (isIntKey d.flags) sd.kvs → DKeysOK sd.kvs →
          Sorted (isIntKey d.flags) kvs' ∧ DKeysOK kvs' ∧
          ∀ k, get (isIntKey d.flags) kvs' k = (get (isIntKey d.flags) sd.kvs k).bind projVal) := by
  obtain ⟨h1, _, h3⟩ := shadowToMain_frame h
  exact ⟨h1, h3, fun n d hp hd hnd => shadowToMain_nondup hdist h hp hd hnd⟩

/-- On well-formed shadow values (header parses, a deleted entry carries no value) the projected
    value is the live value unless that is empty (D7); with the hypothesis "live shadow values are
    non-empty" it is exactly the live value: the application DBI = the live entries of its shadow. -/
theorem C11_project_live (stored : Bytes) (hw : ValWF stored) :
    projVal stored = (liveVal stored).bind (fun v => if v.length = 0 then none else some v) ∧
    ((∀ v, liveVal stored = some v → v ≠ []) → projVal stored = liveVal stored) :=
  ⟨projVal_of_wf hw, projVal_eq_liveVal hw⟩

/-! ## 3. a whole non-native `LoadOnce` -/

/-- **Mirror invariant after every step.** After a successful non-native `LoadOnce` on an
    environment with distinct DBI names, every non-duplicate-keys application DBI `n` that was
    well-formed before (sorted, valid keys; its shadow — if present — has the same integer-key flag
    and is sorted with valid keys; when no capture runs, i.e. no local change, the shadow exists)
    is afterwards exactly the projection of its shadow — `{k ↦ v | shadow k has v ≠ [] behind its
    header}`, on well-formed shadow values the live non-empty entries (`C11_project_live`) — and
    the well-formedness holds again (same flags on both, both sorted with valid keys), so the
    statement applies to the next step; in particular `MirrorOK` holds, the invariant the no-op
    theorem `C10_noop_txn_shadow` assumes. -/
theorem C11_step (c : Txn.Cfg) (e : Env) (snap : Snap) (lastSynced now cutoff : Nat) (r : LoadRes)
    (n : Bytes) (d : Dbi)
    (hn : c.native = false) (hdist : DistinctNames e.dbis)
    (h : loadOnce c e snap lastSynced now cutoff = .ok r)
    (hp : isPrivate n = false) (hd : findDbi e.dbis n = some d) (hnd : isDupSort d.flags = false)
    (hA : Sorted (isIntKey d.flags) d.kvs) (hAK : DKeysOK d.kvs)
    (hsh : ∀ sd, findDbi e.dbis (shadowName n) = some sd →
      isIntKey sd.flags = isIntKey d.flags ∧ Sorted (isIntKey d.flags) sd.kvs ∧ DKeysOK sd.kvs)
    (hex : ¬ lastSynced < e.lastTxn → (findDbi e.dbis (shadowName n)).isSome = true) :
    ∃ d' sd', findDbi r.env.dbis n = some d' ∧ findDbi r.env.dbis (shadowName n) = some sd' ∧
      d'.name = d.name ∧ d'.flags = d.flags ∧ isIntKey sd'.flags = isIntKey d.flags ∧
      Sorted (isIntKey d.flags) d'.kvs ∧ DKeysOK d'.kvs ∧
      Sorted (isIntKey d.flags) sd'.kvs ∧ DKeysOK sd'.kvs ∧
      (∀ k, get (isIntKey d.flags) d'.kvs k = (get (isIntKey d.flags) sd'.kvs k).bind projVal) ∧
      MirrorOK r.env.dbis d' := by
  obtain ⟨sd1, kvs2, kvs3, _, _, hik, _, hsd, hd', hS2, hK2, hS3, hK3, hget, hparse, _⟩ :=
    loadOnce_shadow_track hn hdist h hp hd hnd hA hAK hsh hex
  refine ⟨_, _, hd', hsd, rfl, rfl, hik, hS3, hK3, hS2, hK2, hget, ?_⟩
  refine ⟨hS3, { sd1 with kvs := kvs2 }, ?_, hS2, hK2, hparse, hget⟩
  simp only
  rw [findDbi_name hd]; exact hsd

/-- **A local write survives the step (the C03 ingredient).** Non-native `LoadOnce` with a local
    change (`lastSynced < e.lastTxn`, so the capture runs with transaction id `e.lastTxn + 1` and
    detection time `now`): if before the step the application DBI had `k ↦ v` (`v ≠ []`) and the
    shadow had no entry for `k`, or an entry with a different value and an older timestamp, then
    after the step the application DBI still has `k ↦ v` — unless the snapshot contains, in a
    message for this DBI, an entry for `k` that `Merge` does not keep out of `(now, live, v)`
    (`Merge.keep` fails; for well-formed entries: whose normal form beats `(now, live, v)`, see
    `C11_keep_of_not_beats`). -/
theorem C11_app_write_survives (c : Txn.Cfg) (e : Env) (snap : Snap) (lastSynced now cutoff : Nat)
    (r : LoadRes) (n : Bytes) (d : Dbi) (k v : Bytes)
    (hn : c.native = false) (hdist : DistinctNames e.dbis)
    (h : loadOnce c e snap lastSynced now cutoff = .ok r)
    (hloc : lastSynced < e.lastTxn) (hnow : now < two64) (htx : e.lastTxn + 1 < two64)
    (hp : isPrivate n = false) (hd : findDbi e.dbis n = some d) (hnd : isDupSort d.flags = false)
    (hA : Sorted (isIntKey d.flags) d.kvs) (hAK : DKeysOK d.kvs)
    (hsh : ∀ sd, findDbi e.dbis (shadowName n) = some sd →
      isIntKey sd.flags = isIntKey d.flags ∧ Sorted (isIntKey d.flags) sd.kvs ∧ DKeysOK sd.kvs)
    (hv : get (isIntKey d.flags) d.kvs k = some v) (hvne : v ≠ [])
    (hchg : (get (isIntKey d.flags) (shadowOf ⟨e.dbis, false⟩ n d).kvs k).getD [] = [] ∨
      ∃ old hd a, get (isIntKey d.flags) (shadowOf ⟨e.dbis, false⟩ n d).kvs k = some old ∧
        Header.parse old = .ok (hd, a) ∧ a ≠ v ∧ hd.ts < now)
    (hsnap : ∀ m ∈ snap.dbs, isPrivate m.name = false → m.name = n →
      ∀ en ∈ m.entries, kcmp (isIntKey d.flags) en.key k = 0 →
        Merge.keep (loadCfg c snap (e.lastTxn + 1) cutoff) en
          { ts := now, txn := e.lastTxn + 1, version := 0, flags := 0, numExtra := 0, extra := [] } v) :
    ∃ d', findDbi r.env.dbis n = some d' ∧ get (isIntKey d.flags) d'.kvs k = some v ∧
      ∃ sd', findDbi r.env.dbis (shadowName n) = some sd' ∧
        get (isIntKey d.flags) sd'.kvs k = some (liveBytes now (e.lastTxn + 1) v) := by
  obtain ⟨sd1, kvs2, kvs3, _, _, _, hcap, hsd, hd', _, _, _, _, hget, _, hkeep⟩ :=
    loadOnce_shadow_track hn hdist h hp hd hnd hA hAK hsh (fun hc => absurd hloc hc)
  rw [if_pos hloc] at hcap
  have hc := hcap k
  have h1 : get (isIntKey d.flags) sd1.kvs k = some (liveBytes now (e.lastTxn + 1) v) := by
    rw [hv] at hc
    rcases hchg with hs | ⟨old, hd0, a, hs, hpr, hne, hts⟩
    · rw [capture_new _ now cutoff v _ hs] at hc; exact (Except.ok.inj hc).symm
    · rw [hs, capture_changed _ now cutoff v old a hd0 hpr hne hts] at hc
      exact (Except.ok.inj hc).symm
  have hpl := parse_liveBytes now (e.lastTxn + 1) v hnow htx
  have h2 : get (isIntKey d.flags) kvs2 k = some (liveBytes now (e.lastTxn + 1) v) := by
    rw [hkeep k (fun m hm hpm hmn en hen hk => ?_), h1]
    rw [h1]
    exact ⟨_, _, v, rfl, hpl, hsnap m hm hpm hmn en hen hk⟩
  refine ⟨_, hd', ?_, _, hsd, h2⟩
  simp only
  rw [hget k, h2, Option.bind_some]
  unfold projVal
  rw [hpl]
  simp only
  rw [if_neg (fun h0 => hvne (List.length_eq_zero_iff.mp h0))]

/-- For a well-formed snapshot entry (a deleted entry carries no value) "kept out" is "does not
    beat": if the entry's normal form does not beat `(now, live, v)` last-writer-wins (timestamp
    above `now`, or equal and winning the tie-break), `Merge.keep` holds against the captured
    header. -/
theorem C11_keep_of_not_beats (mc : Merge.Cfg) (en : KV) (now txn : Nat) (v : Bytes) (hw : EntryWF en)
    (hnb : ¬ (norm mc en).beats { ts := now, del := false, val := v }) :
    Merge.keep mc en { ts := now, txn := txn, version := 0, flags := 0, numExtra := 0, extra := [] } v := by
  apply keep_of_not_beats hw
  have h0 : Header.isDeleted (0 : UInt8) = false := by decide
  simpa [h0] using hnb

/-- **Untouched entries keep their timestamps.** Non-native `LoadOnce` (with or without a local
    change): a key the application did not change since the last capture (`Unchanged`: it holds the
    value behind the stored header, or it lacks the key and the shadow has no entry or a marker)
    and that no snapshot message for this DBI mentions keeps exactly its stored shadow bytes. -/
theorem C11_untouched_keep_timestamp (c : Txn.Cfg) (e : Env) (snap : Snap) (lastSynced now cutoff : Nat)
    (r : LoadRes) (n : Bytes) (d : Dbi) (k : Bytes)
    (hn : c.native = false) (hdist : DistinctNames e.dbis)
    (h : loadOnce c e snap lastSynced now cutoff = .ok r)
    (hp : isPrivate n = false) (hd : findDbi e.dbis n = some d) (hnd : isDupSort d.flags = false)
    (hA : Sorted (isIntKey d.flags) d.kvs) (hAK : DKeysOK d.kvs)
    (hsh : ∀ sd, findDbi e.dbis (shadowName n) = some sd →
      isIntKey sd.flags = isIntKey d.flags ∧ Sorted (isIntKey d.flags) sd.kvs ∧ DKeysOK sd.kvs)
    (hex : ¬ lastSynced < e.lastTxn → (findDbi e.dbis (shadowName n)).isSome = true)
    (hun : Unchanged (get (isIntKey d.flags) d.kvs k)
      (get (isIntKey d.flags) (shadowOf ⟨e.dbis, false⟩ n d).kvs k))
    (hsnap : ∀ m ∈ snap.dbs, isPrivate m.name = false → m.name = n →
      ∀ en ∈ m.entries, kcmp (isIntKey d.flags) en.key k ≠ 0) :
    ∃ sd', findDbi r.env.dbis (shadowName n) = some sd' ∧
      get (isIntKey d.flags) sd'.kvs k = get (isIntKey d.flags) (shadowOf ⟨e.dbis, false⟩ n d).kvs k := by
  obtain ⟨sd1, kvs2, kvs3, _, _, _, hcap, hsd, _, _, _, _, _, _, _, hkeep⟩ :=
    loadOnce_shadow_track hn hdist h hp hd hnd hA hAK hsh hex
  have h1 : get (isIntKey d.flags) sd1.kvs k = get (isIntKey d.flags) (shadowOf ⟨e.dbis, false⟩ n d).kvs k := by
    by_cases hl : lastSynced < e.lastTxn
    · rw [if_pos hl] at hcap
      have hc := hcap k
      rw [captureSpec_unchanged _ now cutoff hun] at hc
      exact (Except.ok.inj hc).symm
    · rw [if_neg hl] at hcap
      rw [shadowOf_of_some (w := ⟨e.dbis, false⟩) (d := d) hcap]
  refine ⟨_, hsd, ?_⟩
  simp only
  rw [hkeep k (fun m hm hpm hmn en hen hk => absurd hk (hsnap m hm hpm hmn en hen)), h1]

/-- **Whole-DBI creation by a remote snapshot.** Non-native `LoadOnce`: an application DBI `n`
    that does not exist (nor its shadow) and for which the snapshot carries a message (flags not
    duplicate-keys) exists afterwards, created with the flags of the first such message (or the
    configured override) restricted to 16 bits, its shadow with those of them allowed for shadows
    (MDB_INTEGERKEY), and it is exactly the projection of its shadow (`MirrorOK`). (A DBI the
    application created locally is covered by `C11_step`: the capture creates its shadow.) -/
theorem C11_step_created (c : Txn.Cfg) (e : Env) (snap : Snap) (lastSynced now cutoff : Nat) (r : LoadRes)
    (n : Bytes) (hn : c.native = false) (hdist : DistinctNames e.dbis)
    (h : loadOnce c e snap lastSynced now cutoff = .ok r) (hp : isPrivate n = false)
    (ha : findDbi e.dbis n = none) (hs : findDbi e.dbis (shadowName n) = none)
    (hex : ∃ m ∈ snap.dbs, isPrivate m.name = false ∧ m.name = n)
    (hnd : ∀ m ∈ snap.dbs, m.name = n → isDupSort (createFlags c m) = false) :
    ∃ m0 ∈ snap.dbs, m0.name = n ∧ ∃ kvs2 kvs3,
      findDbi r.env.dbis n = some { name := n, flags := createFlags c m0, kvs := kvs3 } ∧
      findDbi r.env.dbis (shadowName n) =
        some { name := shadowName n, flags := createFlags c m0 &&& Gen.allowedShadowDBIFlagsMask,
               kvs := kvs2 } ∧
      MirrorOK r.env.dbis { name := n, flags := createFlags c m0, kvs := kvs3 } :=
  loadOnce_shadow_created hn hdist h hp ha hs hex hnd

/-- **`SendOnce` is the capture.** In shadow mode the write transaction of `SendOnce` is exactly
    `mainToShadow` on the environment with transaction id `e.lastTxn + 1`, committed (so
    `C11_capture` / `C11_capture_frame` describe it); in native mode `SendOnce` writes nothing. -/
theorem C11_send_is_capture (c : Txn.Cfg) (e : Env) (now cutoff : Nat) (r : SendRes)
    (h : sendOnce c e now cutoff = .ok r) :
    (c.native = true → r.env = e) ∧
    (c.native = false → ∃ w', mainToShadow c ⟨e.dbis, false⟩ (e.lastTxn + 1) now cutoff = .ok w' ∧
      r.env = commit e w') :=
  sendOnce_env h

/-- **The set of DBIs stays well-formed.** DBI names strictly increasing in the root DBI's order
    (hence distinct) stay so through `mainToShadow`, `shadowToMain` and a whole `LoadOnce` (either
    mode), also when DBIs are created. -/
theorem C11_names_preserved :
    (∀ (c : Txn.Cfg) (w w' : W) (txnID now cutoff : Nat), mainToShadow c w txnID now cutoff = .ok w' →
      NamesSorted w.dbis → NamesSorted w'.dbis) ∧
    (∀ (c : Txn.Cfg) (w w' : W), shadowToMain c w = .ok w' → NamesSorted w.dbis → NamesSorted w'.dbis) ∧
    (∀ (c : Txn.Cfg) (e : Env) (snap : Snap) (lastSynced now cutoff : Nat) (r : LoadRes),
      loadOnce c e snap lastSynced now cutoff = .ok r → NamesSorted e.dbis → NamesSorted r.env.dbis) ∧
    (∀ dbis, NamesSorted dbis → DistinctNames dbis) :=
  ⟨fun _ _ _ _ _ _ h hd => mainToShadow_namesSorted h hd,
   fun _ _ _ h hd => shadowToMain_namesSorted h hd,
   fun _ _ _ _ _ _ _ h hd => loadOnce_namesSorted h hd,
   fun _ h => h.distinct⟩

/-! ## 4. integer keys -/

/-- **Integer keys.** A missing shadow DBI is created with exactly the flags of the application
    DBI that are allowed for shadow DBIs (`allowedShadowDBIFlagsMask` = MDB_INTEGERKEY), so it
    inherits MDB_INTEGERKEY and nothing else (never MDB_DUPSORT), and starts empty; both passes then
    run their strategy in that key order (`C11_capture`, `C11_project` are stated with
    `isIntKey d.flags`). After `mainToShadow` the shadow of every application DBI exists. -/
theorem C11_integer_keys (c : Txn.Cfg) (w w' : W) (txnID now cutoff : Nat) (n : Bytes) (d : Dbi)
    (hdist : DistinctNames w.dbis) (h : mainToShadow c w txnID now cutoff = .ok w')
    (hp : isPrivate n = false) (hd : findDbi w.dbis n = some d) (hnd : isDupSort d.flags = false) :
    (findDbi w.dbis (shadowName n) = none →
      (shadowOf w n d).flags = d.flags &&& Gen.allowedShadowDBIFlagsMask ∧
      (shadowOf w n d).kvs = [] ∧
      isIntKey (shadowOf w n d).flags = isIntKey d.flags ∧ isDupSort (shadowOf w n d).flags = false) ∧
    ∃ sd', findDbi w'.dbis (shadowName n) = some sd' ∧ sd'.flags = (shadowOf w n d).flags := by
  constructor
  · intro hs
    unfold shadowOf; rw [hs]
    exact ⟨rfl, rfl, isIntKey_mask d.flags, isDupSort_mask d.flags⟩
  · obtain ⟨kvs', hf, _⟩ := mainToShadow_nondup hdist h hp hd hnd
    exact ⟨_, hf, rfl⟩

/-- the configuration of the concrete instances below: shadow mode, no options -/
def exCfg : Txn.Cfg := { native := false, hack := false, pad := false, receiveOnly := false, override := [] }

/-- one mirror cycle: capture, then projection -/
def cycle (c : Txn.Cfg) (w : W) (txnID now cutoff : Nat) : Except Err W := do
  let w1 ← mainToShadow c w txnID now cutoff
  shadowToMain c w1

/-- an MDB_INTEGERKEY application DBI "a" with the 4-byte keys 0, 1 and 256 (little-endian): in
    integer order, not in byte order -/
def exIntW : W :=
  { dbis := [{ name := [0x61], flags := 8,
               kvs := [([0, 0, 0, 0], [5]), ([1, 0, 0, 0], [7]), ([0, 1, 0, 0], [9])] }],
    dirty := false }

/-- With the D6 fix (first key 0 is not rejected) capture and projection succeed on an integer-key
    DBI containing key 0: the shadow is created with flags 8 (MDB_INTEGERKEY), holds the three keys
    in integer order, and the application DBI is unchanged by the cycle. -/
example :
    (mainToShadow exCfg exIntW 1 100 0).map (fun w =>
      (findDbi w.dbis (shadowName [0x61])).map (fun sd => (sd.flags, sd.kvs.map (·.1))))
      = .ok (some (8, [[0, 0, 0, 0], [1, 0, 0, 0], [0, 1, 0, 0]])) ∧
    (cycle exCfg exIntW 1 100 0).map (fun w => (findDbi w.dbis [0x61]).map (·.kvs))
      = .ok (some [([0, 0, 0, 0], [5]), ([1, 0, 0, 0], [7]), ([0, 1, 0, 0], [9])]) := by
  decide +kernel

/-! ## 5. the known defect D7 -/

/-- an application DBI "a" with an empty value under key 01 and a non-empty one under key 02 -/
def exEmptyW : W :=
  { dbis := [{ name := [0x61], flags := 0, kvs := [([1], []), ([2], [7])] }], dirty := false }

/-- **Negative witness (finding D7, known, not fixed).** An application key with a zero-length value
    is captured as a live entry with an empty value (bare 24-byte header, flags 0) — and is then
    REMOVED from the application DBI by the projection: after `mainToShadow` + `shadowToMain`
    key 01 is gone from the application DBI while key 02 is still there. So "every key present with
    its value" fails for empty values; the mirror theorems carry `projVal` / "live shadow values
    are non-empty". -/
theorem C11_empty_value_witness :
    (mainToShadow exCfg exEmptyW 1 100 0).map (fun w =>
      (findDbi w.dbis (shadowName [0x61])).map (fun sd => get false sd.kvs [1]))
      = .ok (some (some (liveBytes 100 1 []))) ∧
    (cycle exCfg exEmptyW 1 100 0).map (fun w => (findDbi w.dbis [0x61]).map (·.kvs))
      = .ok (some [([2], [7])]) := by
  decide +kernel

/-! ## 6. the hypotheses are satisfiable -/

/-- a well-formed environment in steady state: application DBI "a" = projection of its shadow -/
def exShadow : Dbi :=
  { name := shadowName [0x61], flags := 0, kvs := [([1], liveBytes 50 3 [0x11]), ([2], markerBytes 60 4)] }

def exEnv : Env :=
  { dbis := [exShadow, { name := [0x61], flags := 0, kvs := [([1], [0x11])] }], lastTxn := 7 }

example : DistinctNames exEnv.dbis ∧ isPrivate [0x61] = false ∧
    findDbi exEnv.dbis [0x61] = some { name := [0x61], flags := 0, kvs := [([1], [0x11])] } := by
  decide +kernel

/-- the local hypotheses of `C11_capture` / `C11_step` hold on it (byte-wise key order) -/
example : Sorted false [([1], [0x11])] ∧ DKeysOK [([1], [0x11])] ∧
    Sorted false exShadow.kvs ∧ DKeysOK exShadow.kvs ∧
    (∀ p ∈ exShadow.kvs, ∀ hd v, Header.parse p.2 = .ok (hd, v) → hd.ts < 100) ∧
    MirrorOK exEnv.dbis { name := [0x61], flags := 0, kvs := [([1], [0x11])] } := by
  have hp1 : Header.parse (liveBytes 50 3 [0x11]) = _ := parse_liveBytes 50 3 [0x11] (by decide) (by decide)
  have hp2 : Header.parse (markerBytes 60 4) = _ := parse_markerBytes 60 4 (by decide) (by decide)
  refine ⟨by decide, by decide, by decide, by decide, ?_, by decide, exShadow, (by decide +kernel),
    (by decide), (by decide), ?_, ?_⟩
  · intro p hp hd v hpr
    simp only [exShadow, List.mem_cons, List.not_mem_nil, or_false] at hp
    rcases hp with rfl | rfl
    · rw [hp1] at hpr; injection hpr with hpr; injection hpr with h1 _; subst h1; decide
    · rw [hp2] at hpr; injection hpr with hpr; injection hpr with h1 _; subst h1; decide
  · intro p hp
    simp only [exShadow, List.mem_cons, List.not_mem_nil, or_false] at hp
    rcases hp with rfl | rfl
    · exact ⟨_, _, hp1⟩
    · exact ⟨_, _, hp2⟩
  · intro k
    have e1 : projVal (liveBytes 50 3 [0x11]) = some [0x11] := by unfold projVal; rw [hp1]; rfl
    have e2 : projVal (markerBytes 60 4) = none := by unfold projVal; rw [hp2]; rfl
    have hik : isIntKey 0 = false := by decide
    simp only [exShadow, hik, Lmdb.get, kcmp, Bool.false_eq_true, if_false, bcmp_eq]
    by_cases h1 : k = [1]
    · subst h1; simp [e1]
    · by_cases h2 : k = [2]
      · subst h2; simp [e2]
      · simp [h1, h2]

/-- a step with a local change (the application wrote 03 ↦ 33 in transaction 7) and a remote
    entry for key 02: succeeds; the local write and the remote entry are both in the application DBI -/
example :
    (loadOnce exCfg
      { dbis := [exShadow, { name := [0x61], flags := 0, kvs := [([1], [0x11]), ([3], [0x33])] }], lastTxn := 7 }
      { fv := 3, cv := 1, dbs := [{ name := [0x61], flags := 0, transform := [],
                                     entries := [{ key := [2], val := [0x22], ts := 70, flags := 0 }] }] }
      6 100 0).map (fun r => ((findDbi r.env.dbis [0x61]).map (·.kvs), r.localChanged, r.txnID))
      = .ok (some [([1], [0x11]), ([2], [0x22]), ([3], [0x33])], true, 8) := by
  decide +kernel

end Ls.C11
