import LsLemmas.AbsFleetInv
import LsLemmas.AbsFleetSettle
/-
  C01 — Replicas converge to the per-key last-writer-wins winner.
  Stated on the abstract fleet (LsLemmas/AbsFleet.lean): any number of instances, arbitrary
  schedules of application writes (any key, any well-formed version, equal timestamps across
  instances allowed, timestamp 0 allowed), uploads, and merges of ANY snapshot in the bucket.
  The byte-level transactions refine these steps: C02_merge_is_join / C02_fold_is_joinAll (merge =
  join), C19_update_pointwise (Update applies it per key), C06_complete (a snapshot is the complete
  image), C11_step (non-native mirror); the real sync loops are tied to the model at trace level.
-/
namespace Ls.C01
open Ls Ls.Abs

/-- Once every instance has published its database and merged every other instance's newest
    snapshot, all instances hold identical logical content (same timestamp, deleted flag and value
    for every DBI and key) — whatever happened before, for any number of instances. -/
theorem C01_converged (f : Fleet) (hwf : FleetWF f) (hq : Quiescent f) :
    ∀ i j, i < f.n → j < f.n → f.db i = f.db j := by
  intro i j hi hj
  obtain ⟨sj, _, hsj, hlej⟩ := hq j hj
  obtain ⟨si, _, hsi, hlei⟩ := hq i hi
  apply le_antisymm (hwf.1 i) (hwf.1 j)
  · have := hlei j hj; rw [hsi] at this; exact this
  · have := hlej i hi; rw [hsj] at this; exact this

/-- No invention: whatever any instance stores or publishes was written by some application. -/
theorem C01_content_is_written (n : Nat) (steps : List Step) (hs : StepsWF steps)
    (hm : MonotoneFrom (init n) steps) (i : Nat) (k : Key) (v : Ver)
    (h : (run (init n) steps).db i k = some v) : ∃ i', (i', k, v) ∈ writesOf steps := by
  have hinv := inv_run (init n) [] steps (init_inv n) hs hm
  obtain ⟨i', hi'⟩ := hinv.dbFrom i k v h
  refine ⟨i', ?_⟩
  rcases (mem_writesAcc [] steps _).mp hi' with hx | hx
  · simp at hx
  · exact hx

/-- The winner: in a quiescent state reached by a monotone schedule, every instance holds, for
    every key, a version that no version ever written anywhere for that key beats — and
    (`C01_content_is_written`) it is itself one of the written versions: the last-writer-wins
    maximum (highest timestamp; on equal timestamps the fixed tie-break), whatever the order of
    uploads and merges was. -/
theorem C01_winner (n : Nat) (steps : List Step) (hs : StepsWF steps)
    (hm : MonotoneFrom (init n) steps) (hn : (run (init n) steps).n = n)
    (hq : Quiescent (run (init n) steps)) (i : Nat) (hi : i < n) (j : Nat) (hj : j < n)
    (k : Key) (v : Ver) (hw : (j, k, v) ∈ writesOf steps) :
    join (some v) ((run (init n) steps).db i k) = (run (init n) steps).db i k := by
  have hinv := inv_run (init n) [] steps (init_inv n) hs hm
  have hk := hinv.kept j k v ((mem_writesAcc [] steps _).mpr (Or.inr hw))
  have heq := C01_converged _ hinv.wf hq i j (by rw [hn]; exact hi) (by rw [hn]; exact hj)
  rw [heq]; exact hk

/-- non-vacuity: a write at instance 0 reaches instance 1 and the fleet is quiescent after one
    exchange (hypotheses of the theorems above are satisfiable by a reachable state) -/
example : Quiescent (run (init 2)
    [.write 0 ([1], [2]) ⟨5, false, [7]⟩, .send 0, .load 1 0, .send 1, .load 0 1]) := by
  intro j hj
  have hj' : j = 0 ∨ j = 1 := by
    have : j < 2 := hj
    omega
  rcases hj' with rfl | rfl
  · refine ⟨upd DB.empty ([1], [2]) ⟨5, false, [7]⟩, rfl, ?_, ?_⟩
    · funext k; simp [run, step, init, DB.join, DB.empty, join_none_left, join_idem]
    · intro i hi
      have hi' : i = 0 ∨ i = 1 := by
        have : i < 2 := hi
        omega
      rcases hi' with rfl | rfl <;> intro k <;> simp [run, step, init, DB.join, DB.empty, join_idem, join_none_left]
  · refine ⟨DB.join DB.empty (upd DB.empty ([1], [2]) ⟨5, false, [7]⟩), rfl, ?_, ?_⟩
    · funext k; simp [run, step, init, DB.join]
    · intro i hi
      have hi' : i = 0 ∨ i = 1 := by
        have : i < 2 := hi
        omega
      rcases hi' with rfl | rfl <;> intro k <;> simp [run, step, init, DB.join, DB.empty, join_idem, join_none_left]

/-- the settle schedule is literally "all upload, all load all of these uploads, all upload
    again": for 2 instances and a bucket that already holds 3 snapshots -/
example : settleSchedule 2 3 =
    [.send 0, .send 1, .load 0 3, .load 0 4, .load 1 3, .load 1 4, .send 0, .send 1] := rfl

/-- `allJoin f` — the join of the databases of instances `0..f.n-1` — is exactly their least
    upper bound in the last-writer-wins order: it is well-formed, every instance's database is
    below it, and it is below every well-formed database that is above all of them. -/
theorem C01_allJoin_is_lub (f : Fleet) (hwf : FleetWF f) :
    (allJoin f).WF ∧ (∀ j, j < f.n → (f.db j).le (allJoin f)) ∧
    ∀ d : DB, d.WF → (∀ j, j < f.n → (f.db j).le d) → (allJoin f).le d :=
  ⟨allJoin_wf hwf, le_allJoin hwf, allJoin_le hwf⟩

/-- One settle round suffices, from ANY well-formed state (any number of instances, any prior
    databases, any prior bucket content): after every instance uploads, every instance merges
    every one of these uploads, and every instance uploads again, the fleet is quiescent, the
    number of instances is unchanged, and every instance holds exactly the join (least upper
    bound, `C01_allJoin_is_lub`) of all instances' prior databases — per key the last-writer-wins
    winner among what the instances held. (Holds for `f.n = 0` too, vacuously.) -/
theorem C01_settles (f : Fleet) (hwf : FleetWF f) :
    let g := run f (settleSchedule f.n f.bucket.length)
    Quiescent g ∧ g.n = f.n ∧ ∀ i, i < f.n → g.db i = allJoin f :=
  ⟨settle_quiescent hwf, run_n f _, fun i hi => settle_db hwf i hi⟩

/-- The same, without reference to `allJoin`: after the settle round every instance's database is
    an upper bound of all prior databases and lies below every well-formed upper bound of them. -/
theorem C01_settles_lub (f : Fleet) (hwf : FleetWF f) (i : Nat) (hi : i < f.n) :
    let g := run f (settleSchedule f.n f.bucket.length)
    (∀ j, j < f.n → (f.db j).le (g.db i)) ∧
    ∀ d : DB, d.WF → (∀ j, j < f.n → (f.db j).le d) → (g.db i).le d := by
  intro g
  have h : g.db i = allJoin f := (C01_settles f hwf).2.2 i hi
  rw [h]
  exact ⟨le_allJoin hwf, allJoin_le hwf⟩

/-- After the settle round all instances hold identical content (from quiescence, by
    `C01_converged`). -/
theorem C01_settles_equal (f : Fleet) (hwf : FleetWF f) :
    let g := run f (settleSchedule f.n f.bucket.length)
    ∀ i j, i < f.n → j < f.n → g.db i = g.db j := by
  intro g i j hi hj
  have hg : FleetWF g := run_wf hwf (fun s hs => by
    simp only [settleSchedule, sendAll, loadAll, loadsOf, List.mem_append, List.mem_map,
      List.mem_flatMap] at hs
    rcases hs with (⟨_, _, rfl⟩ | ⟨_, _, _, _, rfl⟩) | ⟨_, _, rfl⟩ <;> trivial)
  have hn : g.n = f.n := (C01_settles f hwf).2.1
  exact C01_converged g hg (C01_settles f hwf).1 i j (by rw [hn]; exact hi) (by rw [hn]; exact hj)

/-- Whatever happened before: after any schedule of well-formed writes, uploads and merges from
    the empty fleet of `n` instances, one settle round yields a quiescent fleet of `n` instances
    that all hold identical content, namely the join of what they held before the round. -/
theorem C01_settle_after_any_history (n : Nat) (steps : List Step) (hs : StepsWF steps) :
    let h := run (init n) steps
    let g := run h (settleSchedule n h.bucket.length)
    Quiescent g ∧ g.n = n ∧ (∀ i j, i < n → j < n → g.db i = g.db j) ∧
    ∀ i, i < n → g.db i = allJoin h := by
  intro h g
  have hh : FleetWF h := run_wf (init_wf n) hs
  have hn : h.n = n := run_n (init n) steps
  have hg : g = run h (settleSchedule h.n h.bucket.length) := by rw [hn]
  rw [hg]
  obtain ⟨hq, hgn, hall⟩ := C01_settles h hh
  refine ⟨hq, hgn.trans hn, ?_, ?_⟩
  · intro i j hi hj
    exact C01_settles_equal h hh i j (by rw [hn]; exact hi) (by rw [hn]; exact hj)
  · intro i hi
    exact hall i (by rw [hn]; exact hi)

/-- non-vacuity: two instances wrote the same key with conflicting versions (equal timestamps,
    different values); the fleet is well-formed, and after the settle round both hold the
    last-writer-wins winner (on equal timestamps the lexicographically lower value) -/
example :
    let f := run (init 2) [.write 0 ([1], [2]) ⟨5, false, [9]⟩, .write 1 ([1], [2]) ⟨5, false, [7]⟩]
    let g := run f (settleSchedule f.n f.bucket.length)
    FleetWF f ∧ f.n = 2 ∧ f.db 0 ([1], [2]) = some ⟨5, false, [9]⟩ ∧
    f.db 1 ([1], [2]) = some ⟨5, false, [7]⟩ ∧
    g.db 0 ([1], [2]) = some ⟨5, false, [7]⟩ ∧ g.db 1 ([1], [2]) = some ⟨5, false, [7]⟩ := by
  refine ⟨run_wf (init_wf 2) ?_, rfl, by decide, by decide, by decide, by decide⟩
  intro s hs
  simp only [List.mem_cons, List.mem_nil_iff, or_false] at hs
  rcases hs with rfl | rfl <;> simp [Ver.WF]

end Ls.C01
