import LsLemmas.AbsFleetInv
/-
  C01 — Replicas converge to the per-key last-writer-wins winner.
  Stated on the abstract fleet (LsLemmas/AbsFleet.lean): any number of instances, arbitrary
  schedules of application writes (any key, any well-formed version, equal timestamps across
  instances allowed, timestamp 0 allowed), uploads, and merges of ANY snapshot in the bucket.
  The byte-level transactions refine these steps: C02_merge_is_join / C02_fold_is_joinAll (merge =
  join), C19_update_pointwise (Update applies it per key), C06_complete (a snapshot is the complete
  image), C11_step (non-native mirror); the real sync loops are tied to the model at trace level.
-/
namespace Ls.C01
open Ls Ls.Abs

/-- Once every instance has published its database and merged every other instance's newest
    snapshot, all instances hold identical logical content (same timestamp, deleted flag and value
    for every DBI and key) — whatever happened before, for any number of instances. -/
theorem C01_converged (f : Fleet) (hwf : FleetWF f) (hq : Quiescent f) :
    ∀ i j, i < f.n → j < f.n → f.db i = f.db j := by
  intro i j hi hj
  obtain ⟨sj, _, hsj, hlej⟩ := hq j hj
  obtain ⟨si, _, hsi, hlei⟩ := hq i hi
  apply le_antisymm (hwf.1 i) (hwf.1 j)
  · have := hlei j hj; rw [hsi] at this; exact this
  · have := hlej i hi; rw [hsj] at this; exact this

/-- No invention: whatever any instance stores or publishes was written by some application. -/
theorem C01_content_is_written (n : Nat) (steps : List Step) (hs : StepsWF steps)
    (hm : MonotoneFrom (init n) steps) (i : Nat) (k : Key) (v : Ver)
    (h : (run (init n) steps).db i k = some v) : ∃ i', (i', k, v) ∈ writesOf steps := by
  have hinv := inv_run (init n) [] steps (init_inv n) hs hm
  obtain ⟨i', hi'⟩ := hinv.dbFrom i k v h
  refine ⟨i', ?_⟩
  rcases (mem_writesAcc [] steps _).mp hi' with hx | hx
  · simp at hx
  · exact hx

/-- The winner: in a quiescent state reached by a monotone schedule, every instance holds, for
    every key, a version that no version ever written anywhere for that key beats — and
    (`C01_content_is_written`) it is itself one of the written versions: the last-writer-wins
    maximum (highest timestamp; on equal timestamps the fixed tie-break), whatever the order of
    uploads and merges was. -/
theorem C01_winner (n : Nat) (steps : List Step) (hs : StepsWF steps)
    (hm : MonotoneFrom (init n) steps) (hn : (run (init n) steps).n = n)
    (hq : Quiescent (run (init n) steps)) (i : Nat) (hi : i < n) (j : Nat) (hj : j < n)
    (k : Key) (v : Ver) (hw : (j, k, v) ∈ writesOf steps) :
    join (some v) ((run (init n) steps).db i k) = (run (init n) steps).db i k := by
  have hinv := inv_run (init n) [] steps (init_inv n) hs hm
  have hk := hinv.kept j k v ((mem_writesAcc [] steps _).mpr (Or.inr hw))
  have heq := C01_converged _ hinv.wf hq i j (by rw [hn]; exact hi) (by rw [hn]; exact hj)
  rw [heq]; exact hk

/-- non-vacuity: a write at instance 0 reaches instance 1 and the fleet is quiescent after one
    exchange (hypotheses of the theorems above are satisfiable by a reachable state) -/
example : Quiescent (run (init 2)
    [.write 0 ([1], [2]) ⟨5, false, [7]⟩, .send 0, .load 1 0, .send 1, .load 0 1]) := by
  intro j hj
  have hj' : j = 0 ∨ j = 1 := by
    have : j < 2 := hj
    omega
  rcases hj' with rfl | rfl
  · refine ⟨upd DB.empty ([1], [2]) ⟨5, false, [7]⟩, rfl, ?_, ?_⟩
    · funext k; simp [run, step, init, DB.join, DB.empty, join_none_left, join_idem]
    · intro i hi
      have hi' : i = 0 ∨ i = 1 := by
        have : i < 2 := hi
        omega
      rcases hi' with rfl | rfl <;> intro k <;> simp [run, step, init, DB.join, DB.empty, join_idem, join_none_left]
  · refine ⟨DB.join DB.empty (upd DB.empty ([1], [2]) ⟨5, false, [7]⟩), rfl, ?_, ?_⟩
    · funext k; simp [run, step, init, DB.join]
    · intro i hi
      have hi' : i = 0 ∨ i = 1 := by
        have : i < 2 := hi
        omega
      rcases hi' with rfl | rfl <;> intro k <;> simp [run, step, init, DB.join, DB.empty, join_idem, join_none_left]

end Ls.C01
