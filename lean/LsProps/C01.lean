import LsLemmas.AbsFleet
/-
  C01 — Replicas converge to the per-key last-writer-wins winner.
  Stated on the abstract fleet (LsLemmas/AbsFleet.lean): any number of instances, arbitrary
  schedules of application writes (any key, any well-formed version, equal timestamps across
  instances allowed, timestamp 0 allowed), uploads, and merges of ANY snapshot in the bucket.
  The byte-level transactions refine these steps: C02_merge_is_join / C02_fold_is_joinAll (merge =
  join), C19_update_pointwise (Update applies it per key), C06_complete (a snapshot is the complete
  image), C11_step (non-native mirror); the real sync loops are tied to the model at trace level.
-/
namespace Ls.C01
open Ls Ls.Abs

/-- Once every instance has published its database and merged every other instance's newest
    snapshot, all instances hold identical logical content (same timestamp, deleted flag and value
    for every DBI and key) — whatever happened before, for any number of instances. -/
theorem C01_converged (f : Fleet) (hwf : FleetWF f) (hq : Quiescent f) :
    ∀ i j, i < f.n → j < f.n → f.db i = f.db j := by
  intro i j hi hj
  obtain ⟨sj, _, hsj, hlej⟩ := hq j hj
  obtain ⟨si, _, hsi, hlei⟩ := hq i hi
  apply le_antisymm (hwf.1 i) (hwf.1 j)
  · have := hlei j hj; rw [hsi] at this; exact this
  · have := hlej i hi; rw [hsj] at this; exact this

/-- the writes of a schedule, with the state they were applied to -/
def writesOf : List Step → List (Nat × Key × Ver)
  | [] => []
  | .write i k v :: rest => (i, k, v) :: writesOf rest
  | _ :: rest => writesOf rest

/-- an application never overwrites a key with a version that loses against what its own
    instance holds (what a native application stamping the current time does, and what the
    non-native capture does under the shared monotone clock) -/
def MonotoneFrom (f : Fleet) : List Step → Prop
  | [] => True
  | s :: rest =>
    (match s with
     | .write i k v => join (f.db i k) (some v) = some v
     | _ => True) ∧ MonotoneFrom (step f s) rest

/-- the invariant carried along a schedule: well-formed, nothing invented, nothing written lost -/
structure Inv (f : Fleet) (W : List (Nat × Key × Ver)) : Prop where
  wf : FleetWF f
  dbFrom : ∀ i k v, f.db i k = some v → ∃ i', (i', k, v) ∈ W
  snapFrom : ∀ p ∈ f.bucket, ∀ k v, p.2 k = some v → ∃ i', (i', k, v) ∈ W
  kept : ∀ i k v, (i, k, v) ∈ W → join (some v) (f.db i k) = f.db i k
  wWF : ∀ i k v, (i, k, v) ∈ W → v.WF

theorem join_some_cases (a : Option Ver) (v : Ver) :
    join a (some v) = a ∨ join a (some v) = some v := by
  cases a with
  | none => right; rfl
  | some x =>
    simp only [join]
    rcases Ver.max_eq_or x v with h | h <;> simp [h]

theorem join_cases (a b : Option Ver) : join a b = a ∨ join a b = b := by
  cases b with
  | none => left; exact join_none_right a
  | some v => exact join_some_cases a v

theorem inv_write {f : Fleet} {W : List (Nat × Key × Ver)} (h : Inv f W) (i : Nat) (k : Key) (v : Ver)
    (hs : v.WF) (hm : join (f.db i k) (some v) = some v) :
    Inv (step f (.write i k v)) ((i, k, v) :: W) := by
  have hwf' : FleetWF (step f (.write i k v)) := step_wf h.wf hs
  refine ⟨hwf', ?_, ?_, ?_, ?_⟩
  · intro j k' v' hv'
    simp only [step] at hv'
    by_cases hj : j = i
    · rw [if_pos hj] at hv'
      by_cases hk : k' = k
      · subst hk; rw [upd_same] at hv'; injection hv' with hv'; subst hv'
        exact ⟨i, by simp⟩
      · rw [upd_other _ _ _ _ hk] at hv'
        obtain ⟨i', hi'⟩ := h.dbFrom i k' v' hv'; exact ⟨i', by simp [hi']⟩
    · rw [if_neg hj] at hv'
      obtain ⟨i', hi'⟩ := h.dbFrom j k' v' hv'; exact ⟨i', by simp [hi']⟩
  · intro p hp k' v' hv'
    obtain ⟨i', hi'⟩ := h.snapFrom p hp k' v' hv'; exact ⟨i', by simp [hi']⟩
  · intro j k' v' hmem
    simp only [step]
    rcases List.mem_cons.mp hmem with heq | hold
    · injection heq with h1 h2; injection h2 with h2 h3
      subst h1; subst h2; subst h3
      rw [if_pos rfl, upd_same, join_idem]
    · by_cases hj : j = i
      · subst hj
        rw [if_pos rfl]
        by_cases hk : k' = k
        · subst hk
          rw [upd_same]
          have hkept := h.kept j k' v' hold
          have hv'wf : OWF (some v') := h.wWF j k' v' hold
          have hvwf : OWF (some v) := hs
          rw [← hm, ← join_assoc hv'wf (h.wf.1 j k') hvwf, hkept]
        · rw [upd_other _ _ _ _ hk]; exact h.kept j k' v' hold
      · rw [if_neg hj]; exact h.kept j k' v' hold
  · intro j k' v' hmem
    rcases List.mem_cons.mp hmem with heq | hold
    · injection heq with h1 h2; injection h2 with h2 h3; subst h3; exact hs
    · exact h.wWF j k' v' hold

theorem inv_send {f : Fleet} {W : List (Nat × Key × Ver)} (h : Inv f W) (i : Nat) :
    Inv (step f (.send i)) W := by
  have hwf' : FleetWF (step f (.send i)) := step_wf h.wf trivial
  refine ⟨hwf', h.dbFrom, ?_, h.kept, h.wWF⟩
  intro p hp k v hv
  simp only [step, List.mem_append, List.mem_singleton] at hp
  rcases hp with hp | hp
  · exact h.snapFrom p hp k v hv
  · subst hp; exact h.dbFrom i k v hv

theorem inv_load {f : Fleet} {W : List (Nat × Key × Ver)} (h : Inv f W) (i idx : Nat) :
    Inv (step f (.load i idx)) W := by
  have hwf' : FleetWF (step f (.load i idx)) := step_wf h.wf trivial
  simp only [step] at hwf' ⊢
  split
  · exact h
  · rename_i j s hget
    rw [hget] at hwf'
    have hmemb := List.mem_of_getElem? hget
    refine ⟨hwf', ?_, h.snapFrom, ?_, h.wWF⟩
    · intro j' k v hv
      simp only at hv
      by_cases hj : j' = i
      · rw [if_pos hj] at hv
        simp only [DB.join] at hv
        rcases join_cases (f.db i k) (s k) with hc | hc
        · rw [hc] at hv; exact h.dbFrom i k v hv
        · rw [hc] at hv; exact h.snapFrom _ hmemb k v hv
      · rw [if_neg hj] at hv; exact h.dbFrom j' k v hv
    · intro j' k v hmem
      simp only
      by_cases hj : j' = i
      · subst hj
        rw [if_pos rfl]
        simp only [DB.join]
        have hvwf : OWF (some v) := h.wWF j' k v hmem
        rw [← join_assoc hvwf (h.wf.1 j' k) (h.wf.2 _ hmemb k), h.kept j' k v hmem]
      · rw [if_neg hj]; exact h.kept j' k v hmem

/-- the writes seen so far, newest first -/
def writesAcc (W : List (Nat × Key × Ver)) : List Step → List (Nat × Key × Ver)
  | [] => W
  | .write i k v :: rest => writesAcc ((i, k, v) :: W) rest
  | _ :: rest => writesAcc W rest

/-- the invariant holds along every monotone schedule of well-formed writes -/
theorem inv_run (f : Fleet) (W : List (Nat × Key × Ver)) (steps : List Step) (h : Inv f W)
    (hs : StepsWF steps) (hm : MonotoneFrom f steps) :
    Inv (run f steps) (writesAcc W steps) := by
  induction steps generalizing f W with
  | nil => simpa [run, writesAcc] using h
  | cons s rest ih =>
    have hs' : StepsWF rest := fun s' h' => hs s' (by simp [h'])
    have hs0 := hs s (by simp)
    cases s with
    | write i k v =>
      simp only [run, List.foldl_cons, writesAcc]
      exact ih _ _ (inv_write h i k v hs0 hm.1) hs' hm.2
    | send i =>
      simp only [run, List.foldl_cons, writesAcc]
      exact ih _ _ (inv_send h i) hs' hm.2
    | load i idx =>
      simp only [run, List.foldl_cons, writesAcc]
      exact ih _ _ (inv_load h i idx) hs' hm.2

theorem mem_writesAcc (W : List (Nat × Key × Ver)) (steps : List Step) (x : Nat × Key × Ver) :
    x ∈ writesAcc W steps ↔ x ∈ W ∨ x ∈ writesOf steps := by
  induction steps generalizing W with
  | nil => simp [writesAcc, writesOf]
  | cons s rest ih =>
    cases s <;> simp only [writesAcc, writesOf, ih, List.mem_cons]
    constructor
    · rintro ((h | h) | h)
      · exact Or.inr (Or.inl h)
      · exact Or.inl h
      · exact Or.inr (Or.inr h)
    · rintro (h | h | h)
      · exact Or.inl (Or.inr h)
      · exact Or.inl (Or.inl h)
      · exact Or.inr h

theorem init_inv (n : Nat) : Inv (init n) [] :=
  ⟨init_wf n, fun _ _ _ h => by simp [init, DB.empty] at h, fun _ h => by simp [init] at h,
   fun _ _ _ h => by simp at h, fun _ _ _ h => by simp at h⟩

/-- No invention: whatever any instance stores or publishes was written by some application. -/
theorem C01_content_is_written (n : Nat) (steps : List Step) (hs : StepsWF steps)
    (hm : MonotoneFrom (init n) steps) (i : Nat) (k : Key) (v : Ver)
    (h : (run (init n) steps).db i k = some v) : ∃ i', (i', k, v) ∈ writesOf steps := by
  have hinv := inv_run (init n) [] steps (init_inv n) hs hm
  obtain ⟨i', hi'⟩ := hinv.dbFrom i k v h
  refine ⟨i', ?_⟩
  rcases (mem_writesAcc [] steps _).mp hi' with hx | hx
  · simp at hx
  · exact hx

/-- The winner: in a quiescent state reached by a monotone schedule, every instance holds, for
    every key, a version that no version ever written anywhere for that key beats — and
    (`C01_content_is_written`) it is itself one of the written versions: the last-writer-wins
    maximum (highest timestamp; on equal timestamps the fixed tie-break), whatever the order of
    uploads and merges was. -/
theorem C01_winner (n : Nat) (steps : List Step) (hs : StepsWF steps)
    (hm : MonotoneFrom (init n) steps) (hn : (run (init n) steps).n = n)
    (hq : Quiescent (run (init n) steps)) (i : Nat) (hi : i < n) (j : Nat) (hj : j < n)
    (k : Key) (v : Ver) (hw : (j, k, v) ∈ writesOf steps) :
    join (some v) ((run (init n) steps).db i k) = (run (init n) steps).db i k := by
  have hinv := inv_run (init n) [] steps (init_inv n) hs hm
  have hk := hinv.kept j k v ((mem_writesAcc [] steps _).mpr (Or.inr hw))
  have heq := C01_converged _ hinv.wf hq i j (by rw [hn]; exact hi) (by rw [hn]; exact hj)
  rw [heq]; exact hk

/-- non-vacuity: a write at instance 0 reaches instance 1 and the fleet is quiescent after one
    exchange (hypotheses of the theorems above are satisfiable by a reachable state) -/
example : Quiescent (run (init 2)
    [.write 0 ([1], [2]) ⟨5, false, [7]⟩, .send 0, .load 1 0, .send 1, .load 0 1]) := by
  intro j hj
  have hj' : j = 0 ∨ j = 1 := by
    have : j < 2 := hj
    omega
  rcases hj' with rfl | rfl
  · refine ⟨upd DB.empty ([1], [2]) ⟨5, false, [7]⟩, rfl, ?_, ?_⟩
    · funext k; simp [run, step, init, DB.join, DB.empty, join_none_left, join_idem]
    · intro i hi
      have hi' : i = 0 ∨ i = 1 := by
        have : i < 2 := hi
        omega
      rcases hi' with rfl | rfl <;> intro k <;> simp [run, step, init, DB.join, DB.empty, join_idem, join_none_left]
  · refine ⟨DB.join DB.empty (upd DB.empty ([1], [2]) ⟨5, false, [7]⟩), rfl, ?_, ?_⟩
    · funext k; simp [run, step, init, DB.join]
    · intro i hi
      have hi' : i = 0 ∨ i = 1 := by
        have : i < 2 := hi
        omega
      rcases hi' with rfl | rfl <;> intro k <;> simp [run, step, init, DB.join, DB.empty, join_idem, join_none_left]

end Ls.C01
