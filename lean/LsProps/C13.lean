import LsLemmas.SweeperEnv
/-
  C13 — The tomb sweeper removes exactly the expired deletion markers.
  Model: LsModel/Sweeper.lean (`startAt` = the LimitScanner's resume rule, `scan`/`slice` = one
  write-lock slice, `passDbi` = the slices of one DBI with the application committing in between,
  `pass` = all swept DBIs), LsModel/Lmdb.lean (abstract DBI), LsModel/Header.lean.
  Vocabulary: LsLemmas/SweeperDefs.lean (`IsExpired`, `Parses`, `keep`, `covered`, `dbiKvs`,
  `appPart`, `boundaries`, `Untouched`, `AppKeeps`). Property theorems only.
-/
namespace Ls.C13
open Ls Ls.Lmdb Ls.Txn Ls.Sweeper

/-! ## 0. what is swept -/

/-- A stored value is what the sweeper deletes (`IsExpired`) iff its header parses, carries the
    deleted flag and a timestamp strictly below the cut-off. A live entry, a marker with
    `ts ≥ cutoff` (the boundary `ts = cutoff` included) and an unparsable value are not. -/
theorem C13_expired_iff (cutoff : Nat) (v : Bytes) :
    IsExpired cutoff v ↔
      ∃ h rest, Header.parse v = .ok (h, rest) ∧ Header.isDeleted h.flags = true ∧ h.ts < cutoff :=
  isExpired_iff cutoff v

/-! ## 1. one slice is sound -/

/-- One write-lock slice on a sorted DBI, started at any resume cursor with any limit: the new
    content is the old one with some entries removed (a sublist: no key or value of a remaining
    entry is altered, nothing is added, the order is kept); every removed entry held, in this
    transaction, an expired marker; so every live entry, every younger marker stays; the reported
    count is the number of entries removed; and through `get`, every key reads what it read
    before unless it read an expired marker and now reads nothing. -/
theorem C13_slice_sound (ik : Bool) (cutoff : Nat) (db : KVs) (last : Option (Bytes × Bytes))
    (n : Option Nat) (r : SliceRes) (hs : Sorted ik db) (h : Sweeper.slice ik cutoff db last n = .ok r) :
    r.db.Sublist db ∧
    (∀ kv ∈ db, kv ∉ r.db → IsExpired cutoff kv.2) ∧
    (∀ kv ∈ db, ¬ IsExpired cutoff kv.2 → kv ∈ r.db) ∧
    r.cleaned + r.db.length = db.length ∧
    Sorted ik r.db ∧
    (∀ k, get ik r.db k = get ik db k ∨
      ∃ v, get ik db k = some v ∧ IsExpired cutoff v ∧ get ik r.db k = none) := by
  refine ⟨slice_sublist hs h, fun kv hm hr => (slice_removed hs h hm hr).1, ?_, slice_cleaned hs h,
    slice_sorted hs h, slice_get hs h⟩
  intro kv hm hne
  exact Classical.byContradiction fun hr => hne (slice_removed hs h hm hr).1

/-! ## 2. what one slice covers -/

/-- One slice in closed form. With `todo = startAt ik db last` (a suffix of the DBI:
    `db = pre ++ todo`) and `m = covered n todo` (`min n todo.length`, all of `todo` without a
    limit), the slice examines exactly the first `m` entries of `todo`: the expired markers among
    them are removed, everything else — `pre`, the other examined entries, the unexamined rest —
    stays in place; `cleaned` counts the expired ones; the cursor returned is the last examined
    entry (the old cursor if none was examined); the limit is reported as reached iff there is
    one and it is at most the number of entries ahead; every examined value parsed. -/
theorem C13_slice_progress (ik : Bool) (cutoff : Nat) (db : KVs) (last : Option (Bytes × Bytes))
    (n : Option Nat) (r : SliceRes) (hs : Sorted ik db) (h : Sweeper.slice ik cutoff db last n = .ok r) :
    let todo := startAt ik db last
    let m := covered n todo
    ∃ pre, db = pre ++ todo ∧
      r.db = pre ++ ((todo.take m).filter (keep cutoff) ++ todo.drop m) ∧
      r.cleaned = ((todo.take m).filter (fun kv => decide (IsExpired cutoff kv.2))).length ∧
      r.last = ((todo.take m).getLast?).or last ∧
      (r.limitReached = true ↔ ∃ l, n = some l ∧ l ≤ todo.length) ∧
      (∀ kv ∈ todo.take m, Parses kv.2) := by
  obtain ⟨pre, h0, h1, h2, h3, h4, h5⟩ := slice_spec hs h
  refine ⟨pre, h0, h1, h2, h3, ?_, h5⟩
  rw [h4]
  cases n with
  | none => simp [hitLimit]
  | some l => simp [hitLimit]

/-- The number of entries a slice examines: all that are ahead without a limit, else the limit
    or what is ahead, whichever is smaller. -/
theorem C13_covered (todo : KVs) :
    covered none todo = todo.length ∧ ∀ l, covered (some l) todo = min l todo.length :=
  ⟨rfl, fun _ => rfl⟩

/-- A slice fails (its transaction aborts) exactly when one of the values it would examine has no
    parsable header, and then with the header error; values outside the examined range are never
    parsed. In particular it succeeds on a DBI whose values all parse. -/
theorem C13_slice_total (ik : Bool) (cutoff : Nat) (db : KVs) (last : Option (Bytes × Bytes)) (n : Option Nat) :
    ((∃ r, Sweeper.slice ik cutoff db last n = .ok r) ↔
      ∀ kv ∈ (startAt ik db last).take (covered n (startAt ik db last)), Parses kv.2) ∧
    (∀ e, Sweeper.slice ik cutoff db last n = .error e → e = .header) ∧
    ((∀ kv ∈ db, Parses kv.2) → ∃ r, Sweeper.slice ik cutoff db last n = .ok r) := by
  refine ⟨slice_ok_iff, fun e he => (scan_error he).1, fun hp => slice_ok_iff.mpr ?_⟩
  intro kv hkv
  exact hp kv ((startAt_sublist ik db last).subset (List.mem_of_mem_take hkv))

/-! ## 3. the resume rule -/

/-- Resuming when nothing changed between two slices: the next slice starts exactly at the
    unexamined rest of this one — whether the last examined entry was kept (it is found again,
    byte-identical, and skipped) or was itself deleted by this slice (the scan lands on its
    successor, which is not skipped). -/
theorem C13_resume (ik : Bool) (cutoff : Nat) (db : KVs) (last : Option (Bytes × Bytes))
    (n : Option Nat) (r : SliceRes) (hs : Sorted ik db) (h : Sweeper.slice ik cutoff db last n = .ok r) :
    startAt ik r.db r.last =
      (startAt ik db last).drop (covered n (startAt ik db last)) :=
  slice_resume hs h

/-- Resuming on whatever sorted content `db'` the application left, with cursor `(lk, lv)`: the
    slice starts at a suffix of `db'` that consists of exactly the entries with a key above `lk`
    plus the entry at `lk` unless it is byte-identical to `(lk, lv)`. So: an entry whose value
    the application changed under the resume key is examined again; every entry above the resume
    key is still ahead; entries at keys below the resume key — inserted behind the scan — are not
    examined in this pass; the unchanged resume entry is not examined twice. -/
theorem C13_resume_after_app (ik : Bool) (db' : KVs) (lk lv : Bytes) (hs : Sorted ik db') :
    (∃ pre, db' = pre ++ startAt ik db' (some (lk, lv))) ∧
    startAt ik db' (some (lk, lv)) =
      db'.filter (fun kv => decide (kcmp ik lk kv.1 < 0) ||
        (decide (kcmp ik kv.1 lk = 0) && decide (kv ≠ (lk, lv)))) ∧
    (∀ v', v' ≠ lv → (lk, v') ∈ db' → (lk, v') ∈ startAt ik db' (some (lk, lv))) ∧
    (∀ kv ∈ db', kcmp ik lk kv.1 < 0 → kv ∈ startAt ik db' (some (lk, lv))) ∧
    (∀ kv ∈ db', kcmp ik kv.1 lk < 0 → kv ∉ startAt ik db' (some (lk, lv))) ∧
    (lk, lv) ∉ startAt ik db' (some (lk, lv)) := by
  refine ⟨startAt_suffix ik db' _, startAt_eq_filter hs lk lv, ?_, ?_, ?_, ?_⟩
  · intro v' hne hm
    rw [mem_startAt hs]
    exact ⟨hm, Or.inr ⟨kcmp_refl ik lk, by simp [hne]⟩⟩
  · intro kv hm hlt
    rw [mem_startAt hs]
    exact ⟨hm, Or.inl hlt⟩
  · intro kv _ hlt hin
    rw [mem_startAt hs] at hin
    have := kcmp_lt_asymm ik hlt
    rcases hin.2 with h | ⟨h, _⟩ <;> omega
  · intro hin
    rw [mem_startAt hs] at hin
    have := kcmp_refl ik lk
    rcases hin.2 with h | ⟨_, h⟩
    · simp only at h; omega
    · exact h rfl

/-! ## 4. a whole pass without interference -/

/-- A pass over one DBI without application writes, with any slice length `n ≥ 1`: it succeeds
    (values parse), the final content of the DBI is the start content without its expired markers
    — every expired marker is gone, every other entry is there byte-identical, in order — so the
    result does not depend on how the pass is chopped into slices; no other DBI is touched. It
    takes `len / n + 1` write transactions and `len / n` pauses and reports the number of
    expired markers; the environment's transaction id moves iff something was removed. Fuel:
    `len < fuel * n` suffices (i.e. `fuel ≥ len / n + 1`; `pass` supplies `len + 1002`). -/
theorem C13_complete_no_app (ik : Bool) (cutoff n : Nat) (name : Bytes) (fuel : Nat) (e : Env) (d : Dbi)
    (bi nt nc : Nat) (hn : 1 ≤ n) (hd : findDbi e.dbis name = some d) (hs : Sorted ik d.kvs)
    (hp : ∀ kv ∈ d.kvs, Parses kv.2) (hf : d.kvs.length < fuel * n) :
    ∃ ef, passDbi ik cutoff n (fun _ e => e) name fuel e none bi nt nc =
        .ok (ef, bi + d.kvs.length / n, nt + d.kvs.length / n + 1,
             nc + (d.kvs.filter (fun kv => decide (IsExpired cutoff kv.2))).length) ∧
      ef.dbis = setKvs e.dbis name (d.kvs.filter (fun kv => !decide (IsExpired cutoff kv.2))) ∧
      e.lastTxn ≤ ef.lastTxn ∧
      (ef.lastTxn = e.lastTxn ↔ ∀ kv ∈ d.kvs, ¬ IsExpired cutoff kv.2) := by
  obtain ⟨ef, h1, h2, h3, h4⟩ := passDbi_no_app (ik := ik) (cutoff := cutoff) (name := name) hn fuel e none bi nt nc
    d [] d.kvs hd rfl rfl hs hp hf
  refine ⟨ef, h1, by rw [h2]; rfl, h3, ?_⟩
  rw [h4, List.length_eq_zero_iff, List.filter_eq_nil_iff]
  simp

/-- …in particular two passes with different slice lengths leave the same DBIs. -/
theorem C13_slicing_irrelevant (ik : Bool) (cutoff n n' : Nat) (name : Bytes) (fuel fuel' : Nat) (e : Env)
    (d : Dbi) (bi nt nc bi' nt' nc' : Nat) (hn : 1 ≤ n) (hn' : 1 ≤ n')
    (hd : findDbi e.dbis name = some d) (hs : Sorted ik d.kvs)
    (hp : ∀ kv ∈ d.kvs, Parses kv.2) (hf : d.kvs.length < fuel * n) (hf' : d.kvs.length < fuel' * n') :
    ∃ ef ef' x x', passDbi ik cutoff n (fun _ e => e) name fuel e none bi nt nc = .ok (ef, x) ∧
      passDbi ik cutoff n' (fun _ e => e) name fuel' e none bi' nt' nc' = .ok (ef', x') ∧
      ef.dbis = ef'.dbis := by
  obtain ⟨ef, h1, h2, _⟩ := C13_complete_no_app ik cutoff n name fuel e d bi nt nc hn hd hs hp hf
  obtain ⟨ef', h1', h2', _⟩ := C13_complete_no_app ik cutoff n' name fuel' e d bi' nt' nc' hn' hd hs hp hf'
  exact ⟨ef, ef', _, _, h1, h1', by rw [h2, h2']⟩

/-- A whole pass over an environment (distinct DBI names) without application writes, native or
    not, any slice length `n ≥ 1`, every swept DBI sorted in its own key order with parsable
    values: the pass succeeds and leaves exactly the environment in which every swept DBI has
    lost its expired markers and nothing else, and every other DBI is as it was. The fuel `pass`
    gives each DBI suffices. -/
theorem C13_pass_no_app (native : Bool) (cutoff n : Nat) (e : Env) (hn : 1 ≤ n)
    (hnd : (e.dbis.map (·.name)).Nodup)
    (hsw : ∀ d ∈ e.dbis, swept native d.name = true →
      Sorted (isIntKey d.flags) d.kvs ∧ ∀ kv ∈ d.kvs, Parses kv.2) :
    ∃ ef nt nc, pass native cutoff n (fun _ e => e) e = .ok (ef, nt, nc) ∧
      ef.dbis = e.dbis.map (fun d =>
        if swept native d.name then { d with kvs := d.kvs.filter (fun kv => !decide (IsExpired cutoff kv.2)) }
        else d) := by
  obtain ⟨res, h1, h2⟩ := fold_no_app (cutoff := cutoff) hn e hnd (fun x => swept native x = true) hsw
    ((e.dbis.map (·.name)).filter (swept native)) [] (e, 0, 0, 0)
    (fun x hx => ⟨(List.mem_filter.mp hx).2, (List.mem_filter.mp hx).1⟩)
    (hnd.sublist List.filter_sublist) (fun _ _ h => by cases h)
    (by simp [sweepNamed])
  refine ⟨res.1, res.2.2.1, res.2.2.2, ?_, ?_⟩
  · rw [pass_eq, h1]; rfl
  · rw [h2]
    unfold sweepNamed
    apply List.map_congr_left
    intro d hd
    have : (d.name ∈ (List.filter (swept native) (List.map (·.name) e.dbis)).reverse ++ []) ↔
        swept native d.name = true := by
      simp only [List.append_nil, List.mem_reverse, List.mem_filter, List.mem_map]
      exact ⟨fun h => h.2, fun h => ⟨⟨d, hd, rfl⟩, h⟩⟩
    by_cases hsd : swept native d.name = true
    · rw [if_pos (this.mpr hsd), if_pos hsd]; rfl
    · rw [if_neg (fun h => hsd (this.mp h)), if_neg hsd]

/-! ## 5. a pass with the application writing at every slice boundary -/

/-- Soundness of a pass over one DBI under ARBITRARY application commits at the slice boundaries
    (`app i` at boundary `i`), from any resume cursor, any slice length, any fuel. For a key `k`
    whose binding the application leaves untouched at the boundaries actually reached
    (`Untouched`, which also asks that the application's commits keep the DBI sorted): if the DBI
    still exists at the end, it is sorted and `k` reads what it read at the start — same bytes —
    unless it read an expired marker (expired in the content of the slice's own transaction) and
    now reads nothing. A live entry, a younger marker, an absent key are never altered, removed,
    created. (Per slice, without any assumption on the application, this is `C13_slice_sound`.) -/
theorem C13_sound_with_app (ik : Bool) (cutoff n : Nat) (app : Nat → Env → Env) (name k : Bytes)
    (fuel : Nat) (e : Env) (last : Option (Bytes × Bytes)) (bi nt nc : Nat)
    (ef : Env) (bi' nt' nc' : Nat) (kvs : KVs)
    (h : passDbi ik cutoff n app name fuel e last bi nt nc = .ok (ef, bi', nt', nc'))
    (hk : dbiKvs e name = some kvs) (hs : Sorted ik kvs)
    (hu : Untouched ik name k app (boundaries ik cutoff n app name fuel e last bi)) :
    ∀ kf, dbiKvs ef name = some kf →
      Sorted ik kf ∧
      (get ik kf k = get ik kvs k ∨
        ∃ v, get ik kvs k = some v ∧ IsExpired cutoff v ∧ get ik kf k = none) :=
  passDbi_sound fuel e last bi nt nc _ kvs h hk hs hu

/-- The scan invariant behind completeness, from any point of a pass: if at the start of a slice
    key `k` is either already absent or bound to the expired marker `v` in the part of the DBI
    still ahead of the cursor (`startAt`), the application leaves `k`'s binding untouched at the
    boundaries reached, and the pass ends by itself (`nt' < nt + fuel`: it opened fewer
    transactions than it had fuel, i.e. its last slice did not hit the limit), then `k` is absent
    at the end. Slice length `n ≥ 1`. -/
theorem C13_complete_invariant (ik : Bool) (cutoff n : Nat) (app : Nat → Env → Env) (name k v : Bytes)
    (fuel : Nat) (e : Env) (last : Option (Bytes × Bytes)) (bi nt nc : Nat)
    (ef : Env) (bi' nt' nc' : Nat) (kvs : KVs) (hn : 1 ≤ n) (hv : IsExpired cutoff v)
    (h : passDbi ik cutoff n app name fuel e last bi nt nc = .ok (ef, bi', nt', nc'))
    (hfuel : nt' < nt + fuel)
    (hk : dbiKvs e name = some kvs) (hs : Sorted ik kvs)
    (hinv : get ik kvs k = none ∨ get ik (startAt ik kvs last) k = some v)
    (hu : Untouched ik name k app (boundaries ik cutoff n app name fuel e last bi)) :
    ∃ kf, dbiKvs ef name = some kf ∧ get ik kf k = none :=
  passDbi_complete hn hv fuel e last bi nt nc _ kvs h hfuel hk hs hinv hu

/-- Completeness of a pass over one DBI under ARBITRARY application commits at the slice
    boundaries: every key `k` bound to an expired marker at pass start whose binding the
    application leaves untouched at the boundaries reached (it may write anything else: the resume
    key, its neighbours, keys behind and ahead, insertions and deletions, as long as the DBI stays
    sorted) is absent when the pass has ended — the DBI still exists and `k` reads nothing.
    Slice length `n ≥ 1`; `nt' < nt + fuel` says the pass ended by itself and was not cut short
    by the model's fuel (with an application that keeps inserting ahead of the cursor the real
    pass need not end at all). -/
theorem C13_complete_with_app (ik : Bool) (cutoff n : Nat) (app : Nat → Env → Env) (name k v : Bytes)
    (fuel : Nat) (e : Env) (bi nt nc : Nat) (ef : Env) (bi' nt' nc' : Nat) (kvs : KVs)
    (hn : 1 ≤ n)
    (h : passDbi ik cutoff n app name fuel e none bi nt nc = .ok (ef, bi', nt', nc'))
    (hfuel : nt' < nt + fuel)
    (hk : dbiKvs e name = some kvs) (hs : Sorted ik kvs)
    (hkv : get ik kvs k = some v) (hv : IsExpired cutoff v)
    (hu : Untouched ik name k app (boundaries ik cutoff n app name fuel e none bi)) :
    ∃ kf, dbiKvs ef name = some kf ∧ get ik kf k = none :=
  passDbi_complete hn hv fuel e none bi nt nc _ kvs h hfuel hk hs (Or.inr hkv) hu

/-- Both directions for an untouched key: after a pass that ended by itself, it reads nothing if
    it read an expired marker at pass start, and else exactly what it read at pass start. -/
theorem C13_exact_with_app (ik : Bool) (cutoff n : Nat) (app : Nat → Env → Env) (name k : Bytes)
    (fuel : Nat) (e : Env) (bi nt nc : Nat) (ef : Env) (bi' nt' nc' : Nat) (kvs : KVs)
    (hn : 1 ≤ n)
    (h : passDbi ik cutoff n app name fuel e none bi nt nc = .ok (ef, bi', nt', nc'))
    (hfuel : nt' < nt + fuel)
    (hk : dbiKvs e name = some kvs) (hs : Sorted ik kvs)
    (hu : Untouched ik name k app (boundaries ik cutoff n app name fuel e none bi)) :
    ∃ kf, dbiKvs ef name = some kf ∧
      get ik kf k = (get ik kvs k).filter (fun v => !decide (IsExpired cutoff v)) := by
  obtain ⟨kf, hkf⟩ := passDbi_final_exists fuel e none bi nt nc _ h hfuel
  have ⟨_, hsound⟩ := passDbi_sound fuel e none bi nt nc _ kvs h hk hs hu kf hkf
  refine ⟨kf, hkf, ?_⟩
  cases hg : get ik kvs k with
  | none =>
    rw [hg] at hsound
    rcases hsound with h1 | ⟨v, h1, _⟩
    · rw [h1]; rfl
    · cases h1
  | some v =>
    rw [hg] at hsound
    by_cases hv : IsExpired cutoff v
    · obtain ⟨kf', hkf', hnone⟩ := passDbi_complete hn hv fuel e none bi nt nc _ kvs h hfuel hk hs (Or.inr hg) hu
      rw [hkf] at hkf'; cases hkf'
      rw [hnone]; simp [Option.filter, hv]
    · rcases hsound with h1 | ⟨v', h1, h2, _⟩
      · rw [h1]; simp [Option.filter, hv]
      · cases h1; exact absurd h2 hv

/-- The application functions need not be known on all environments: a function-level condition
    implies `Untouched` on every trace. If every `app i` maps a sorted content of the DBI to a
    sorted content with the same binding for `k`, then `k` is untouched in every pass. -/
theorem C13_untouched_of_fn (ik : Bool) (name k : Bytes) (app : Nat → Env → Env)
    (happ : ∀ i e a b, dbiKvs e name = some a → dbiKvs (app i e) name = some b → Sorted ik a →
      Sorted ik b ∧ get ik b k = get ik a k) (bs : List (Nat × Env)) :
    Untouched ik name k app bs :=
  fun i e' _ a b ha hb hsa => happ i e' a b ha hb hsa

/-- Soundness of a whole pass over an environment (all swept DBIs, native or not) with the
    application committing at every slice boundary: for a DBI `name` and key `k` such that the
    application's commits keep the DBI with its flags, keep it sorted in its key order and leave
    `k`'s binding untouched (`AppKeeps`; everything else, in this and every other DBI, is
    arbitrary), after the pass the DBI is there with the same flags, sorted, and `k` reads the
    same bytes as at pass start, unless it read an expired marker and now reads nothing. -/
theorem C13_pass_sound_with_app (native : Bool) (cutoff n : Nat) (app : Nat → Env → Env) (e ef : Env)
    (nt nc : Nat) (name k : Bytes) (d : Dbi)
    (hd : findDbi e.dbis name = some d) (hs : Sorted (isIntKey d.flags) d.kvs)
    (happ : AppKeeps (isIntKey d.flags) name k app)
    (h : pass native cutoff n app e = .ok (ef, nt, nc)) :
    ∃ df, findDbi ef.dbis name = some df ∧ df.flags = d.flags ∧ Sorted (isIntKey d.flags) df.kvs ∧
      (get (isIntKey d.flags) df.kvs k = get (isIntKey d.flags) d.kvs k ∨
        ∃ v, get (isIntKey d.flags) d.kvs k = some v ∧ IsExpired cutoff v ∧
          get (isIntKey d.flags) df.kvs k = none) := by
  obtain ⟨nb, hf⟩ := pass_ok_inv h
  exact fold_keeps (g0 := get (isIntKey d.flags) d.kvs k) rfl happ _ _ _ hf ⟨d, hd, rfl, hs, Or.inl rfl⟩

/-! ## 6. which DBIs are swept -/

/-- Non-native mode sweeps exactly the DBIs with Lightning Stream's private prefix; native mode
    sweeps every DBI. -/
theorem C13_native_all (e : Env) :
    (∀ name, swept false name = isPrivate name) ∧ (∀ name, swept true name = true) ∧
    (e.dbis.map (·.name)).filter (swept true) = e.dbis.map (·.name) ∧
    (e.dbis.map (·.name)).filter (swept false) = (e.dbis.map (·.name)).filter isPrivate := by
  refine ⟨fun _ => rfl, fun _ => rfl, ?_, ?_⟩
  · exact List.filter_eq_self.mpr (fun _ _ => rfl)
  · rfl

/-- A non-native pass never writes an application DBI, whatever the application does meanwhile:
    if what each application commit makes of the application's DBIs (`appPart`: all DBIs without
    the private prefix — names, flags, contents, order) depends on those DBIs only, say through
    `g i`, then after the pass the application's DBIs are exactly what the application's commits
    alone make of them, `g (nb-1) (… (g 0 (appPart e)))` for the `nb` slice boundaries of the
    pass. -/
theorem C13_shadow_only (cutoff n : Nat) (app : Nat → Env → Env) (g : Nat → List Dbi → List Dbi)
    (e ef : Env) (nt nc : Nat)
    (happ : ∀ i e, appPart (app i e) = g i (appPart e))
    (h : pass false cutoff n app e = .ok (ef, nt, nc)) :
    ∃ nb, appPart ef = (List.range nb).foldl (fun s i => g i s) (appPart e) := by
  obtain ⟨nb, hf⟩ := pass_ok_inv h
  have ⟨_, h2⟩ := fold_appPart g happ _ _ _
    (fun name hn => by
      have := (List.mem_filter.mp hn).2
      simpa [swept] using this) hf
  refine ⟨nb, ?_⟩
  rw [h2, List.range_eq_range']
  rfl

/-- …so with an application that does not write its own DBIs during the pass (or no application
    at all), they are byte-identical before and after a non-native pass. -/
theorem C13_shadow_only_identical (cutoff n : Nat) (app : Nat → Env → Env) (e ef : Env) (nt nc : Nat)
    (happ : ∀ i e, appPart (app i e) = appPart e)
    (h : pass false cutoff n app e = .ok (ef, nt, nc)) :
    appPart ef = appPart e := by
  obtain ⟨nb, hnb⟩ := C13_shadow_only cutoff n app (fun _ s => s) e ef nt nc happ h
  rw [hnb]
  induction (List.range nb) with
  | nil => rfl
  | cons _ _ ih => exact ih

/-! ## 7. recorded transactions -/

/-- A slice changes the DBI iff it removed something (`cleaned > 0`), and the environment the
    sweeper commits after a slice — the one handed to the application at the boundary, or the
    final one — carries a new LMDB transaction id iff the slice changed the DBI: a slice that
    deletes nothing records no transaction. -/
theorem C13_lasttxn (ik : Bool) (cutoff n : Nat) (app : Nat → Env → Env) (name : Bytes) (fuel : Nat)
    (e : Env) (last : Option (Bytes × Bytes)) (bi nt nc : Nat) (d : Dbi) (r : SliceRes)
    (hd : findDbi e.dbis name = some d) (hs : Sorted ik d.kvs)
    (hr : Sweeper.slice ik cutoff d.kvs last (some n) = .ok r) :
    (r.cleaned > 0 ↔ r.db ≠ d.kvs) ∧
    passDbi ik cutoff n app name (fuel + 1) e last bi nt nc =
      (let e' : Env := { dbis := setKvs e.dbis name r.db,
                         lastTxn := if r.db = d.kvs then e.lastTxn else e.lastTxn + 1 }
       if r.limitReached then passDbi ik cutoff n app name fuel (app bi e') r.last (bi + 1) (nt + 1) (nc + r.cleaned)
       else .ok (e', bi, nt + 1, nc + r.cleaned)) := by
  have hc := slice_cleaned_pos hs hr
  refine ⟨hc, ?_⟩
  rw [passDbi_succ hd hr]
  have : commitSlice e name r =
      { dbis := setKvs e.dbis name r.db, lastTxn := if r.db = d.kvs then e.lastTxn else e.lastTxn + 1 } := by
    unfold commitSlice
    by_cases hz : r.cleaned > 0
    · rw [if_pos hz, if_neg (hc.mp hz)]
    · rw [if_neg hz, if_pos (Classical.byContradiction fun hne => hz (hc.mpr hne))]
  rw [this]

/-! ## 8. a concrete DBI -/

section Examples

/-- a stored value: header (timestamp, transaction id 7, flags) and application bytes -/
private def val (ts : Nat) (fl : UInt8) (payload : Bytes) : Bytes := Header.putBasic ts 7 fl ++ payload

/-- live, old marker, marker exactly at the cut-off 10, old marker, live -/
private def exDb : KVs :=
  [([1], val 5 0 [9]), ([2], val 5 1 []), ([3], val 10 1 []), ([4], val 3 1 []), ([5], val 20 0 [8])]

example : IsExpired 10 (val 5 1 []) := by decide
example : ¬ IsExpired 10 (val 10 1 []) := by decide      -- `ts = cutoff` stays
example : ¬ IsExpired 10 (val 5 0 [9]) := by decide       -- live entries stay, however old
example : ¬ IsExpired 10 [1, 2, 3] := by decide           -- no header

set_option maxRecDepth 8000

/-- slice 1 (two entries): the resume cursor is the marker at key 2, which the slice deleted -/
example : (Sweeper.slice false 10 exDb none (some 2)).toOption =
    some { db := [([1], val 5 0 [9]), ([3], val 10 1 []), ([4], val 3 1 []), ([5], val 20 0 [8])],
           last := some ([2], val 5 1 []), limitReached := true, cleaned := 1 } := by decide

/-- resuming at a deleted key: the scan continues with its successor, nothing is skipped -/
example : startAt false [([1], val 5 0 [9]), ([3], val 10 1 []), ([4], val 3 1 []), ([5], val 20 0 [8])]
    (some ([2], val 5 1 [])) = [([3], val 10 1 []), ([4], val 3 1 []), ([5], val 20 0 [8])] := by decide

/-- slice 2: keeps the marker at the cut-off, deletes the marker at key 4 (again the cursor) -/
example : (Sweeper.slice false 10 [([1], val 5 0 [9]), ([3], val 10 1 []), ([4], val 3 1 []), ([5], val 20 0 [8])]
    (some ([2], val 5 1 [])) (some 2)).toOption =
    some { db := [([1], val 5 0 [9]), ([3], val 10 1 []), ([5], val 20 0 [8])],
           last := some ([4], val 3 1 []), limitReached := true, cleaned := 1 } := by decide

/-- slice 3: one entry left, the limit is not reached, nothing removed -/
example : (Sweeper.slice false 10 [([1], val 5 0 [9]), ([3], val 10 1 []), ([5], val 20 0 [8])]
    (some ([4], val 3 1 [])) (some 2)).toOption =
    some { db := [([1], val 5 0 [9]), ([3], val 10 1 []), ([5], val 20 0 [8])],
           last := some ([5], val 20 0 [8]), limitReached := false, cleaned := 0 } := by decide

/-- resuming at a kept entry: found again byte-identical and skipped; changed by the application
    (here: re-deleted with an older timestamp): examined again -/
example : startAt false exDb (some ([3], val 10 1 [])) = [([4], val 3 1 []), ([5], val 20 0 [8])] := by decide
example : startAt false [([1], val 5 0 [9]), ([3], val 2 1 []), ([5], val 20 0 [8])] (some ([3], val 10 1 [])) =
    [([3], val 2 1 []), ([5], val 20 0 [8])] := by decide

private def exEnv : Env := { dbis := [{ name := [0x61], flags := 0, kvs := exDb }], lastTxn := 40 }

/-- the whole pass in slices of two: three transactions (two of them recorded), two markers
    removed; the same content as in one unlimited slice -/
example : (passDbi false 10 2 (fun _ e => e) [0x61] 10 exEnv none 0 0 0).toOption =
    some ({ dbis := [{ name := [0x61], flags := 0,
                       kvs := [([1], val 5 0 [9]), ([3], val 10 1 []), ([5], val 20 0 [8])] }],
            lastTxn := 42 }, 2, 3, 2) := by decide

example : ((Sweeper.slice false 10 exDb none none).toOption.map (·.db)) =
    some [([1], val 5 0 [9]), ([3], val 10 1 []), ([5], val 20 0 [8])] := by decide

private def exApp (i : Nat) (e : Env) : Env :=
  if i = 0 then
    match findDbi e.dbis [0x61] with
    | some d => { e with dbis := setKvs e.dbis [0x61] (put false (put false d.kvs [2] (val 4 1 [])) [1, 5] (val 1 1 [])) }
    | none => e
  else e

/-- the application, at the first boundary, re-creates an expired marker under the (deleted)
    resume key 2 and inserts one behind the scan at key [1,5]: the first is examined again and
    removed, the second is not examined in this pass -/
example : (passDbi false 10 2 exApp [0x61] 10 exEnv none 0 0 0).toOption.map (fun r => (dbiKvs r.1 [0x61], r.2.2)) =
    some (some [([1], val 5 0 [9]), ([1, 5], val 1 1 []), ([3], val 10 1 []), ([5], val 20 0 [8])], 4, 3) := by
  decide

/-- non-native mode leaves the application DBI `a` alone; native mode sweeps it -/
example : (pass false 10 2 (fun _ e => e) exEnv).toOption = some (exEnv, 0, 0) := by decide +kernel
example : ((pass true 10 2 (fun _ e => e) exEnv).toOption.map (fun r => (dbiKvs r.1 [0x61], r.2))) =
    some (some [([1], val 5 0 [9]), ([3], val 10 1 []), ([5], val 20 0 [8])], 3, 2) := by decide

end Examples

end Ls.C13
