import LsLemmas.Config
import LsLemmas.MergeRefine
/-
  C04 — Deletions propagate and deleted keys are not resurrected.
  Lattice part (cut-off 0), retention arithmetic (sweeper part). The "markers travel in every
  snapshot" and "a missing application key becomes a marker" parts are C06_complete and
  C11_capture.
-/
namespace Ls.C04
open Ls Ls.Config Ls.Merge

/-- For every sweeper configuration with a non-negative retention (`rd = RetentionDuration()`,
    any int64 `retention_load_cutoff_duration`: zero, negative, positive, larger than the
    retention) the duration used for the load cut-off is between 0 and the retention: the load
    cut-off is never older than the sweeper's. (False before the D8 fix for retention·3 ≥ 2^63.) -/
theorem C04_cutoff_le (rd cutoff : Int) (h0 : 0 ≤ rd) (h1 : rd < 9223372036854775808) :
    0 ≤ rdmc rd cutoff ∧ rdmc rd cutoff ≤ rd := by
  unfold rdmc
  have hq : tdiv rd 4 = rd / 4 := tdiv_nonneg_eq rd 4 h0
  have hc : tdiv rd 100 = rd / 100 := tdiv_nonneg_eq rd 100 h0
  rw [hq, hc]
  have hmb : wrapInt64 (rd / 4 * 3) = rd / 4 * 3 := wrapInt64_id _ (by omega) (by omega)
  split
  · rw [hmb]
    simp only
    split
    · rw [wrapInt64_id _ (by omega) (by omega)]; omega
    · rw [wrapInt64_id _ (by omega) (by omega)]; omega
  · rw [wrapInt64_id _ (by omega) (by omega)]; omega

/-- Swept markers do not bounce: for all times `tSweep ≤ tLoad`, a marker the sweeper could have
    removed at `tSweep` (timestamp below `tSweep − retention`) is below the load cut-off at
    `tLoad` … -/
theorem C04_no_bounce_cutoff (rd cutoff tSweep tLoad ts : Int) (h0 : 0 ≤ rd)
    (h1 : rd < 9223372036854775808) (ht : tSweep ≤ tLoad) (hs : ts < sweepCutoff tSweep rd) :
    ts < loadCutoff tLoad rd cutoff := by
  have := C04_cutoff_le rd cutoff h0 h1
  unfold sweepCutoff at hs; unfold loadCutoff; omega

/-- … and a marker below the load cut-off is refused by the merge on an instance that has no entry
    for the key (it is not re-created), whatever else the entry carries. -/
theorem C04_stale_marker_refused (c : Cfg) (e : KV)
    (hd : Header.isDeleted (maskedFlags e) = true) (hs : e.ts < c.cutoff) :
    merge c e [] = .ok none := by
  rw [merge_absent, if_pos ⟨by simp [entryDeleted, hd], hs⟩]

/-- The same for a format-1 snapshot, where a deletion is written as an empty value without a
    flag (the code before the D16 repair re-created these markers). -/
theorem C04_stale_marker_refused_v1 (c : Cfg) (e : KV)
    (hv : c.fv < 2) (he : e.val = []) (hs : e.ts < c.cutoff) :
    merge c e [] = .ok none := by
  rw [merge_absent, if_pos ⟨by simp [entryDeleted, he, hv], hs⟩]

/-- A deletion recorded at time T wins against every version older than T, whichever of the two
    arrives first, … -/
theorem C04_delete_wins (m v : Ver) (_hm : m.del = true) (hlt : v.ts < m.ts) :
    join (some v) (some m) = some m ∧ join (some m) (some v) = some m := by
  have hb : m.beats v := Or.inl hlt
  have hnb : ¬ v.beats m := Ver.beats_asymm hb
  simp [join, Ver.max, hb, hnb]

/-- … the key then stays deleted until a version that wins last-writer-wins against the marker
    arrives: any later merge either keeps the marker or installs a version that beats it. -/
theorem C04_marker_stays (m v : Ver) :
    join (some m) (some v) = some m ∨ (join (some m) (some v) = some v ∧ v.beats m) := by
  by_cases h : v.beats m
  · right; simp [join, Ver.max, h]
  · left; simp [join, Ver.max, h]

/-- At byte level (cut-off 0, snapshot-load use): merging a marker stamped T into a stored live
    version older than T stores the marker: the key disappears from the application's view. -/
theorem C04_delete_propagates (c : Cfg) (e : KV) (old : Bytes) (o : Ver)
    (hw : EntryWF e) (hb : Bounded c e) (hd : c.defTs = 0)
    (hold : decodeS old = .ok (some o)) (hdel : entryDeleted c e = true) (hts : o.ts < (norm c e).ts) :
    ∃ r, mergeStore c e old = .ok r ∧ decodeS r = .ok (some (norm c e)) ∧ (norm c e).del = true := by
  obtain ⟨r, h1, h2⟩ := mergeStore_join c e old (some o) hw hb hd hold (by intro h; cases h)
  refine ⟨r, h1, ?_, hdel⟩
  have hbeats : (norm c e).beats o := Or.inl hts
  rw [h2]; simp [join, Ver.max, hbeats]

/-- non-vacuity: the configuration that overflowed before the fix (40000 days, 1 h cut-off) -/
example : rdmc 3456000066710405120 3600000000000 = 3455996466710405120 := by decide

end Ls.C04
