import LsLemmas.MergeRefine
/-
  C02 — Merging is an order-insensitive join that never moves a key backwards.
  Model: LsModel/Merge.lean (NativeIterator.Merge as it is in /repo, byte level).
  Abstract order: LsModel/Ver.lean. Property theorems only.
-/
namespace Ls.C02
open Ls Ls.Header Ls.Merge

/-- The last-writer-wins relation is a strict total order on well-formed versions (deleted ⇒ no
    value): irreflexive, asymmetric, transitive, and any two distinct versions are comparable —
    the fixed, order-independent tie-break. -/
theorem C02_order_strict_total :
    (∀ a : Ver, ¬ a.beats a) ∧
    (∀ a b : Ver, a.beats b → ¬ b.beats a) ∧
    (∀ a b c : Ver, a.beats b → b.beats c → a.beats c) ∧
    (∀ a b : Ver, a.WF → b.WF → a = b ∨ a.beats b ∨ b.beats a) :=
  ⟨Ver.beats_irrefl, fun _ _ => Ver.beats_asymm, fun _ _ _ => Ver.beats_trans,
   fun _ _ => Ver.beats_total⟩

/-- join (the winner of two optional versions) is idempotent, commutative and associative -/
theorem C02_join_laws (a b c : Option Ver) (ha : OWF a) (hb : OWF b) (hc : OWF c) :
    join a a = a ∧ join a b = join b a ∧ join (join a b) c = join a (join b c) :=
  ⟨join_idem a, join_comm ha hb, join_assoc ha hb hc⟩

/-- One byte-level merge step is the join at the level of logical content: for every stored
    value (absent, live, deleted, any timestamp incl. 0, any value incl. empty, any number of
    extension blocks — anything `Parse` accepts), every well-formed entry, format versions 1..3
    (any `fv`), any cut-off, provided the entry is not a stale marker refused on an absent key
    (always true for cut-off 0). Snapshot-load use (no default timestamp). -/
theorem C02_merge_is_join (c : Cfg) (e : KV) (old : Bytes) (ov : Option Ver)
    (hw : EntryWF e) (hb : Bounded c e) (hd : c.defTs = 0)
    (hold : decodeS old = .ok ov) (hst : ov = none → ¬ stale c e) :
    ∃ r, mergeStore c e old = .ok r ∧ decodeS r = .ok (join ov (some (norm c e))) :=
  mergeStore_join c e old ov hw hb hd hold hst

/-- Merging any list of entries, in list order, yields the join of the stored version with all
    of them (cut-off 0). -/
theorem C02_fold_is_joinAll (c : Cfg) (es : List KV) (old : Bytes) (ov : Option Ver)
    (hc : c.cutoff = 0) (hd : c.defTs = 0)
    (hes : ∀ e ∈ es, EntryWF e ∧ Bounded c e) (hold : decodeS old = .ok ov) :
    ∃ r, foldMerge c es old = .ok r ∧ decodeS r = .ok (joinAll ov (es.map (norm c))) := by
  induction es generalizing old ov with
  | nil => exact ⟨old, rfl, hold⟩
  | cons e es ih =>
    obtain ⟨hw, hb⟩ := hes e (by simp)
    have hns : ov = none → ¬ stale c e := by
      intro _ hs; have := hs.2; rw [hc] at this; omega
    obtain ⟨r1, h1, h1d⟩ := mergeStore_join c e old ov hw hb hd hold hns
    obtain ⟨r, h2, h2d⟩ := ih r1 _ (fun e' he' => hes e' (by simp [he'])) h1d
    refine ⟨r, ?_, ?_⟩
    · simp only [foldMerge, List.foldlM_cons, h1] at h2 ⊢
      exact h2
    · simpa [joinAll] using h2d

/-- …so the result depends only on the multiset of versions merged, not on their order:
    any permutation of the entries gives the same logical content. -/
theorem C02_any_order (c : Cfg) (es es' : List KV) (old : Bytes) (ov : Option Ver)
    (hp : es.Perm es') (hc : c.cutoff = 0) (hd : c.defTs = 0)
    (hes : ∀ e ∈ es, EntryWF e ∧ Bounded c e) (hold : decodeS old = .ok ov) (hov : OWF ov) :
    ∃ r r', foldMerge c es old = .ok r ∧ foldMerge c es' old = .ok r' ∧ decodeS r = decodeS r' := by
  obtain ⟨r, h1, h1d⟩ := C02_fold_is_joinAll c es old ov hc hd hes hold
  obtain ⟨r', h2, h2d⟩ := C02_fold_is_joinAll c es' old ov hc hd
    (fun e he => hes e (hp.mem_iff.mpr he)) hold
  refine ⟨r, r', h1, h2, ?_⟩
  rw [h1d, h2d, joinAll_perm (hp.map (norm c)) hov]
  intro v hv
  obtain ⟨e, _, rfl⟩ := List.mem_map.mp hv
  exact norm_wf c e

/-- …nor on multiplicity: merging an entry a second time changes nothing. -/
theorem C02_idempotent (c : Cfg) (e : KV) (old : Bytes) (ov : Option Ver)
    (hc : c.cutoff = 0) (hd : c.defTs = 0) (hw : EntryWF e) (hb : Bounded c e)
    (hold : decodeS old = .ok ov) (hov : OWF ov) :
    ∃ r r', foldMerge c [e] old = .ok r ∧ foldMerge c [e, e] old = .ok r' ∧ decodeS r = decodeS r' := by
  have hes1 : ∀ x ∈ [e], EntryWF x ∧ Bounded c x := by intro x hx; simp at hx; subst hx; exact ⟨hw, hb⟩
  have hes2 : ∀ x ∈ [e, e], EntryWF x ∧ Bounded c x := by
    intro x hx; simp at hx; subst hx; exact ⟨hw, hb⟩
  obtain ⟨r, h1, h1d⟩ := C02_fold_is_joinAll c [e] old ov hc hd hes1 hold
  obtain ⟨r', h2, h2d⟩ := C02_fold_is_joinAll c [e, e] old ov hc hd hes2 hold
  refine ⟨r, r', h1, h2, ?_⟩
  rw [h1d, h2d]
  simp only [joinAll, List.map_cons, List.map_nil, List.foldl_cons, List.foldl_nil]
  rw [join_absorb hov (norm_wf c e)]

/-- A merge never moves a stored key backwards — for every cut-off, format version, default
    timestamp (so also the shadow-capture use) and padding option: the result is the stored
    bytes themselves, or the entry, and then the entry strictly wins last-writer-wins. -/
theorem C02_never_backwards (c : Cfg) (e : KV) (old : Bytes) (o : Ver)
    (hw : EntryWF e) (hb : Bounded c e) (hold : decodeS old = .ok (some o)) :
    ∃ r, merge c e old = .ok (some r) ∧
      (r = old ∨ (decodeS r = .ok (some (norm c e)) ∧ (norm c e).beats o)) := by
  obtain ⟨hl, hdr, appVal, hp, ho⟩ := decodeS_some hold
  obtain ⟨hk1, hk2⟩ := merge_present c e old hdr appVal hl hp
  by_cases hk : keep c e hdr appVal
  · exact ⟨old, hk1 hk, Or.inl rfl⟩
  · refine ⟨_, hk2 hk, Or.inr ⟨decodeS_addHeader c e hb, ?_⟩⟩
    rw [ho]; exact not_keep_beats hw hk

/-- When the incoming version does not win, the stored bytes are left untouched: if the
    logical content after the merge equals the content before, the bytes are identical (so
    `setNewVal` writes nothing). -/
theorem C02_untouched (c : Cfg) (e : KV) (old r : Bytes) (o : Ver)
    (hw : EntryWF e) (hb : Bounded c e) (hold : decodeS old = .ok (some o))
    (hm : merge c e old = .ok (some r)) (hsame : decodeS r = .ok (some o)) : r = old := by
  obtain ⟨r', hm', h⟩ := C02_never_backwards c e old o hw hb hold
  rw [hm] at hm'; injection hm' with hm'; injection hm' with hm'; subst hm'
  rcases h with h | ⟨hd, hbeats⟩
  · exact h
  · rw [hsame] at hd; injection hd with hd; injection hd with hd
    rw [← hd] at hbeats; exact absurd hbeats (Ver.beats_irrefl o)

/-- Absent key: the entry is added with its header, unless it is a deletion marker older than
    the cut-off, which is refused (never for cut-off 0). -/
theorem C02_absent (c : Cfg) (e : KV) (hb : Bounded c e) :
    (stale c e → merge c e [] = .ok none) ∧
    (¬ stale c e → ∃ r, merge c e [] = .ok (some r) ∧ decodeS r = .ok (some (norm c e))) := by
  rw [merge_absent]
  constructor
  · intro h; unfold stale at h; rw [if_pos h]
  · intro h; unfold stale at h; rw [if_neg h]; exact ⟨_, rfl, decodeS_addHeader c e hb⟩

/-- A stored value that `Parse` rejects is never overwritten: the merge reports an error. -/
theorem C02_corrupt_old_is_error (c : Cfg) (e : KV) (old : Bytes) (err : Header.Err)
    (hl : old.length ≠ 0) (hp : parse old = .error err) : merge c e old = .error err := by
  unfold merge; rw [if_neg hl, hp]

/-- Shadow-capture use (entry timestamp 0, default timestamp = detection time): an unchanged
    application value leaves the stored bytes — and therefore its timestamp — untouched. -/
theorem C02_capture_unchanged (c : Cfg) (e : KV) (old : Bytes) (hdr : Hdr)
    (hl : old.length ≠ 0) (hp : parse old = .ok (hdr, e.val)) (h0 : e.ts = 0)
    (hlive : entryDeleted c e = false) : merge c e old = .ok (some old) := by
  apply (merge_present c e old hdr e.val hl hp).1
  left; exact ⟨h0, rfl, by simp [hlive]⟩

/-- Finding D12 (known, recorded): with a non-zero stale-deletion cut-off the result is **not**
    order-independent when the overall winner is a marker older than the cut-off — the marker is
    refused on an absent key but wins against an older live version that is already stored.
    This is the documented consequence of tombstone expiry (C04 requires the refusal); the
    order-independence theorems above are therefore stated for cut-off 0 (`_partial` in the
    sense of the brief for the "all stale-deletion cutoffs" part of the quantifier). -/
theorem C02_stale_order_dependent_witness :
    let c : Cfg := { fv := 3, defTs := 0, txn := 9, cutoff := 3, pad := false }
    let live : KV := { key := [0x6b], val := [0x61], ts := 1, flags := 0 }
    let mark : KV := { key := [0x6b], val := [], ts := 2, flags := 1 }
    (foldMerge c [mark, live] [] >>= decodeS) = .ok (some ⟨1, false, [0x61]⟩) ∧
    (foldMerge c [live, mark] [] >>= decodeS) = .ok (some ⟨2, true, []⟩) := by
  constructor <;> rfl

/-- non-vacuity: the hypotheses of `C02_merge_is_join` are met by a concrete tie at equal
    timestamps with a stored live empty value and an incoming deletion (finding D1's input). -/
example : EntryWF { key := [0x6b], val := [], ts := 2, flags := 1 } ∧
    Bounded { fv := 3, defTs := 0, txn := 9, cutoff := 0, pad := false }
      { key := [0x6b], val := [], ts := 2, flags := 1 } := by
  refine ⟨by decide, by decide, by decide, by decide⟩

end Ls.C02
