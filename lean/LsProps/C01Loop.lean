import LsLemmas.LoopAbs
import LsProps.C01
import LsProps.C01RefineShadow
import LsProps.C03
/-
  C01 (sync loops) — fleets of SYNC LOOPS refine the abstract last-writer-wins fleet, so the
  convergence theorems of LsProps/C01.lean (`C01_converged`, `C01_winner`, `C01_content_is_written`,
  `C01_settles…`) apply to fleets of sync loops and not only to fleets of bare transactions.
  Model: LsModel/SyncLoop.lean (`go`, `appCommit`, `listed`), the product fleet of
  LsLemmas/LoopBound.lean (`Fleet := Nat → G`, `fleetStep`, `fleetRun`: a global event `(k, e)` is
  an event of instance `k`; the other instances see what it appended to the one bucket; the ghost
  fields of `G` never influence the model). Helper lemmas: LsLemmas/LoopAbs.lean. Property theorems only.

  The loop differs from the bare-transaction fleets of C01Refine / C01RefineShadow in three ways,
  all handled by the simulation RELATIONS `RelN` / `RelS` (instead of abstraction functions):
  * `SendOnce`'s transaction and the store of its snapshot are different segments: the abstract
    `send` is taken when the transaction commits (that is when the published content is fixed);
    the blob reaches the bucket later (or never: store failure). Hence the relation says that every
    blob of the bucket, and every snapshot in flight, has its logical content SOMEWHERE in the
    abstract bucket — not at the same index;
  * the loop chooses `lastSynced` itself (finding D9). In native mode this affects what is
    published when, not the content: no race hypothesis. In shadow mode the invariant I1 of
    race-free schedules (`C03_I1_partial`) is what makes every `LoadOnce` honest (`C01_loop_honest`);
  * the start-up capture of shadow mode stamps with time 1 ("in the past").
-/
namespace Ls.C01
open Ls Ls.Lmdb Ls.Txn Ls.SyncLoop Ls.Loop

/-! ## (A) native mode -/

/-- **One segment of a native-mode loop is at most one transaction of the byte-level fleet.** For
    any program counter, bucket and input, `go c b s i` of a native-mode instance
    (1) leaves the environment as it is, or it polled (`prePoll s = some (s1, n)`: from `top`, or
        from the yield point after a load, where `lastSynced` is first brought up to date) and the
        new environment is that of ONE successful `loadOnce c.txn s.env blob.snap s1.lastSynced i.now 0`
        (cut-off 0: the loop model runs with the sweeper off) of the blob of the bucket the input
        names;
    (2) reaches the yield point after `SendOnce`'s transaction only by ONE successful `sendOnce` on
        the unchanged environment at time `i.now`, whose snapshot it then holds in flight;
    (3) changes the bucket only by appending the snapshot held in flight (not receive-only, the
        store did not exhaust its retries);
    and an application transaction `appCommit s ops` is exactly `appTxn` on the environment (all or
    nothing) and touches nothing else of the state. -/
theorem C01_loop_segment_refines_native (c : LoopCfg) (hn : c.txn.native = true) (b : Bucket)
    (s : St) (i : In) :
    ((go c b s i).1.env = s.env ∨
      ∃ inst ts blob s1 n r, i.next = some (inst, ts) ∧ findBlob b inst ts = some blob ∧ blob ∈ b ∧
        prePoll s = some (s1, n) ∧ s1.env = s.env ∧
        loadOnce c.txn s.env blob.snap s1.lastSynced i.now 0 = .ok r ∧ (go c b s i).1.env = r.env) ∧
    (∀ who t ts sn, (go c b s i).1.pc = .sendAfterTxn who t ts sn →
      ∃ r, sendOnce c.txn s.env i.now 0 = .ok r ∧ r.env = s.env ∧ (go c b s i).1.env = s.env ∧
        sn = r.snap ∧ ts = i.now) ∧
    ((go c b s i).2 = b ∨
      ∃ who t ts sn, s.pc = .sendAfterTxn who t ts sn ∧ c.txn.receiveOnly = false ∧
        i.fails < c.retryCount ∧ (go c b s i).2 = b ++ [{ inst := c.own, ts := ts, snap := sn }]) ∧
    (∀ ops, (appCommit s ops).env = (match appTxn s.env ops with | some e => e | none => s.env) ∧
      (appCommit s ops).pc = s.pc ∧ (appCommit s ops).lastSynced = s.lastSynced) := by
  have hbe : bootEnv c s.env = .ok s.env := by unfold bootEnv; simp [hn]
  refine ⟨?_, ?_, ?_, fun ops => ⟨appCommit_env s ops, (appCommit_facts s ops).1, (appCommit_facts s ops).2.1⟩⟩
  · cases go_shape c b s i with
    | quiet h1 _ _ => exact Or.inl h1
    | load s1 n inst ts blob r h1 h2 hx hy h3 h4 h5 _ =>
      exact Or.inr ⟨inst, ts, blob, s1, n, r, hx, hy, h3, h1, h2, h4, h5⟩
    | send r _ h2 h3 _ => left; rw [h3]; exact (Loop.sendOnce_facts h2).1 hn
    | bootNoSend env1 _ h2 h3 _ _ => rw [hbe] at h2; injection h2 with h2; left; rw [h3, h2]
    | bootSend env1 r _ h2 h3 h4 _ =>
      rw [hbe] at h2; injection h2 with h2; subst h2
      left; rw [h4]; exact (Loop.sendOnce_facts h3).1 hn
  · intro who t ts sn hpc
    cases go_shape c b s i with
    | quiet _ h2 _ => exact absurd hpc (h2 who t ts sn)
    | load s1 n inst ts' blob r _ _ _ _ _ _ _ h6 => rw [h6] at hpc; cases hpc
    | send r _ h2 h3 h4 =>
      rw [h4] at hpc; injection hpc with _ _ e3 e4
      have hre := (Loop.sendOnce_facts h2).1 hn
      exact ⟨r, h2, hre, by rw [h3, hre], e4.symm, e3.symm⟩
    | bootNoSend env1 _ _ _ h4 _ => exact absurd hpc (h4 who t ts sn)
    | bootSend env1 r _ h2 h3 h4 h5 =>
      rw [hbe] at h2; injection h2 with h2; subst h2
      rw [h5] at hpc; injection hpc with _ _ e3 e4
      have hre := (Loop.sendOnce_facts h3).1 hn
      exact ⟨r, h3, hre, by rw [h4, hre], e4.symm, e3.symm⟩
  · rcases go_bucket c b s i with ⟨⟨⟨who, t, ts, sn, hpc⟩, hro, hf⟩, blob, hd, hb⟩ | ⟨_, hb⟩
    · right
      refine ⟨who, t, ts, sn, hpc, hro, hf, ?_⟩
      rw [hb]
      simp only [dumpBlob, hpc] at hd
      injection hd with hd
      rw [hd]
    · exact Or.inl hb

/-- **Every schedule of a fleet of native-mode sync loops is a run of the abstract fleet.** Let
    all instances run a native schema; let the loop fleet `F` (any program counters, one shared
    bucket) and the abstract fleet `A` be related by `RelN`: `A.db j = absEnv (F j).st.env` for
    every instance, every environment `EnvWF`, every blob of the bucket and every snapshot in
    flight `SnapOk` with its logical content (`absSnap`) somewhere in the abstract bucket
    (`C01_loop_fleet_init_native`: the start). Let every global event satisfy its side condition
    in the state it is applied to (`LoopRunOkN` / `LoopOkN`, nothing about success): a segment runs
    below transaction id 2^64 and the snapshot the receiver hands over, if any, has the key order
    of its target DBIs (`FlagsOk`); an application transaction is one put of a well-formed stored
    value into an existing non-private, byte-ordered, non-duplicate DBI that does not lose
    against what is stored; no blob comes from outside the fleet. NO race hypothesis: the D9
    windows change what is published when, not the content. Then there is an abstract schedule
    `steps` — per global event at most one step: `write` for a committed application put, `load`
    for a segment that merged a blob, `send` for a segment in which `SendOnce`'s transaction
    committed (the store, later, is no abstract step) — such that the loop fleet after the
    schedule is related (`RelN`) to `Abs.run A steps`; the abstract schedule and fleet are ones the
    theorems of LsProps/C01.lean apply to (`StepsWF`, `MonotoneFrom`, `FleetWF`). -/
theorem C01_loop_fleet_refines_native (cs : Nat → LoopCfg) (hn : ∀ j, (cs j).txn.native = true)
    (F : Fleet) (A : Abs.Fleet) (evs : List (Nat × Ev)) (hrel : RelN cs F A)
    (hok : LoopRunOkN cs F evs) :
    ∃ steps, RelN cs (fleetRun cs F evs) (Abs.run A steps) ∧
      (∀ j, (Abs.run A steps).db j = absEnv (fleetRun cs F evs j).st.env) ∧
      Abs.StepsWF steps ∧ Abs.MonotoneFrom A steps ∧ Abs.FleetWF A ∧
      Abs.FleetWF (Abs.run A steps) ∧ steps.length ≤ evs.length := by
  obtain ⟨steps, h1, h2, h3, h4⟩ := loop_run_refines_native cs hn evs F A hrel hok
  exact ⟨steps, h1, h1.db, h2, h3, relN_fleetWF hrel, relN_fleetWF h1, h4⟩

/-- **The start.** `n` loops, each booting (`G.init`) from its own well-formed environment, over
    an empty bucket, are related to the abstract fleet holding `absEnv` of these environments and
    an empty bucket. -/
theorem C01_loop_fleet_init_native (cs : Nat → LoopCfg) (n : Nat) (envs : Nat → Env)
    (hwf : ∀ j, EnvWF (envs j)) :
    RelN cs (fun j => G.init (envs j) []) { n := n, db := fun j => absEnv (envs j), bucket := [] } :=
  relN_init cs n envs hwf

/-- **Convergence of native-mode sync loops.** If a loop fleet is related to an abstract fleet
    (as it is after every admissible schedule, `C01_loop_fleet_refines_native`) and that abstract
    fleet is quiescent (`Abs.Quiescent`: every instance's newest published snapshot is its
    database and every instance has merged every instance's newest snapshot), then all
    instances hold identical logical content `absEnv`. -/
theorem C01_loop_fleet_converges_native (cs : Nat → LoopCfg) (F : Fleet) (A : Abs.Fleet)
    (hrel : RelN cs F A) (hq : Abs.Quiescent A) :
    ∀ i j, i < A.n → j < A.n → absEnv (F i).st.env = absEnv (F j).st.env := by
  intro i j hi hj
  rw [← hrel.db i, ← hrel.db j]
  exact C01_converged A (relN_fleetWF hrel) hq i j hi hj

/-! ## (B) shadow mode -/

/-- **I1 makes the loop honest.** At an instance satisfying the loop invariants `Inv0` (every
    schedule) and `Inv1` (race-free schedules; together they give I1, `C03_I1_partial`), in which
    the environment is `Mirrored` whenever no application transaction is uncaptured (`uncap = []`
    — kept by every transaction, `C01_loop_fleet_refines_shadow_partial`): whenever the loop polls,
    the `lastSynced` it hands to `LoadOnce` is below `lastTxn` (the capture runs) or the
    environment is `Mirrored` (there is nothing to capture) — the honesty condition of `SStepOk`,
    the discipline finding D9 violates. (`SendOnce` always captures: nothing to show there.) -/
theorem C01_loop_honest (c : LoopCfg) (g : G) (h0 : Inv0 c g) (h1 : Inv1 c g)
    (hcap : g.gh.uncap = [] → Mirrored g.st.env) (s1 : St) (n : Nat)
    (hp : prePoll g.st = some (s1, n)) :
    s1.env = g.st.env ∧ (s1.lastSynced < s1.env.lastTxn ∨ Mirrored s1.env) := by
  have he : s1.env = g.st.env := by
    unfold prePoll at hp
    split at hp
    · injection hp with hp; injection hp with e1 _; rw [← e1]
    · split at hp
      · cases hp
      · injection hp with hp; injection hp with e1 _
        rw [← e1]; exact (loadDone_facts _ _ _ _ _).1
    · cases hp
  exact ⟨he, honest_of_inv h0 h1 hcap hp he⟩

/-- The side conditions of a shadow-mode schedule contain race-freedom: if `LoopRunOkS` holds,
    every instance's local schedule is race-free (`RaceFreeFrom … Racy`, the hypothesis of
    `C03_I1_partial`). -/
theorem C01_loop_ok_racefree (cs : Nat → LoopCfg) (F : Fleet) (evs : List (Nat × Ev))
    (hok : LoopRunOkS cs F evs) (j : Nat) :
    RaceFreeFrom (cs j) Racy (F j) (localEvs cs F evs j) := by
  induction evs generalizing F with
  | nil => trivial
  | cons ke es ih =>
    obtain ⟨h1, h2⟩ := hok
    refine ⟨?_, ih _ h2⟩
    unfold localEv
    by_cases hj : j = ke.1
    · rw [if_pos hj, hj]
      obtain ⟨k, e⟩ := ke
      cases e with
      | app ops => exact h1.2
      | go i => trivial
      | list => trivial
      | others bs => trivial
    · rw [if_neg hj]; trivial

/-- **Every admissible schedule of a fleet of shadow-mode sync loops is a run of the abstract
    fleet.** Let all instances run shadow mode, no dupsort hack, not receive-only, with
    byte-ordered create-flag overrides (`CfgByte`). Let the loop fleet `F` and the abstract fleet `A`
    be related by `RelS`: `A.db j = absShadow (F j).st.env`; every environment `EnvInv` (well-formed,
    byte-ordered application DBIs, no empty live or application value — D7); every instance
    satisfies `Inv0`, `Inv1` and "nothing uncaptured ⇒ `Mirrored`"; every blob of the one bucket and
    every snapshot in flight satisfies `SnapInv` and has its logical content somewhere in the
    abstract bucket (`C01_loop_fleet_init_shadow`: the start). Let every global event satisfy its
    side condition in the state it is applied to (`LoopRunOkS` / `LoopOkS`, nothing about success):
    * a segment runs below transaction id 2^64 − 1 and reads a time `i.now` < 2^64 above every
      timestamp stored in its instance's shadows (shared monotone clock);
    * an application transaction is one put of a NON-EMPTY value or one delete in a non-private
      DBI, and no RECORDED application transaction commits inside the race window `Racy`
      (`C01_loop_ok_racefree`: the schedule is `RaceFree`, the hypothesis of `C03_I1_partial`);
    * no blob comes from outside the fleet;
    * [added beyond race-freedom, clock, D7 and byte order — hence `_partial`] the start-up
      segment (`pc = boot`) finds its environment `Mirrored`: the start-up capture stamps with time
      1, so offline changes pending at start-up are not captured as the newest version.
    Then there is an abstract schedule `steps` — nothing for an application transaction; for a
    segment in which a `LoadOnce` / `SendOnce` transaction committed, the abstract writes of its
    capture (`C01_capture_writes`) followed by `load` / `send` — such that the loop fleet after the
    schedule is related (`RelS`) to `Abs.run A steps`; `StepsWF`, `MonotoneFrom` and `FleetWF` hold,
    so the theorems of LsProps/C01.lean apply. That every `LoadOnce` of the loop satisfies the
    honesty condition of `C01_shadow_run_refines` is `C01_loop_honest`, used segment by segment. -/
theorem C01_loop_fleet_refines_shadow_partial (cs : Nat → LoopCfg)
    (hn : ∀ j, (cs j).txn.native = false) (hh : ∀ j, (cs j).txn.hack = false)
    (hro : ∀ j, (cs j).txn.receiveOnly = false) (hcb : ∀ j, CfgByte (cs j).txn)
    (F : Fleet) (A : Abs.Fleet) (evs : List (Nat × Ev)) (hrel : RelS cs F A)
    (hok : LoopRunOkS cs F evs) :
    ∃ steps, RelS cs (fleetRun cs F evs) (Abs.run A steps) ∧
      (∀ j, (Abs.run A steps).db j = absShadow (fleetRun cs F evs j).st.env) ∧
      Abs.StepsWF steps ∧ Abs.MonotoneFrom A steps ∧ Abs.FleetWF A ∧
      Abs.FleetWF (Abs.run A steps) := by
  obtain ⟨steps, h1, h2, h3⟩ := loop_run_refines_shadow cs hn hh hro hcb evs F A hrel hok
  exact ⟨steps, h1, h1.db, h2, h3, relS_fleetWF hrel, relS_fleetWF h1⟩

/-- **The start.** `n` loops, each booting from its own environment satisfying `EnvInv` (decidable
    form: `C01_shadow_inv_decidable`) and `Mirrored` (decidable form: `C01_mirrored_decidable`),
    over an empty bucket, are related to the abstract fleet holding `absShadow` of these
    environments and an empty bucket. -/
theorem C01_loop_fleet_init_shadow (cs : Nat → LoopCfg) (n : Nat) (envs : Nat → Env)
    (hinv : ∀ j, EnvInv (envs j)) (hm : ∀ j, Mirrored (envs j)) :
    RelS cs (fun j => G.init (envs j) []) { n := n, db := fun j => absShadow (envs j), bucket := [] } :=
  relS_init cs n envs hinv hm

/-- **Convergence of shadow-mode sync loops.** If a loop fleet is related (`RelS`) to a quiescent
    abstract fleet, all instances hold identical shadow content `absShadow`; and any two of them
    that are `Mirrored` (as every instance is after each of its Lightning Stream transactions)
    show their applications the same data. -/
theorem C01_loop_fleet_converges_shadow (cs : Nat → LoopCfg) (F : Fleet) (A : Abs.Fleet)
    (hrel : RelS cs F A) (hq : Abs.Quiescent A) :
    ∀ i j, i < A.n → j < A.n →
      absShadow (F i).st.env = absShadow (F j).st.env ∧
      (Mirrored (F i).st.env → Mirrored (F j).st.env → appView (F i).st.env = appView (F j).st.env) := by
  intro i j hi hj
  have heq : absShadow (F i).st.env = absShadow (F j).st.env := by
    rw [← hrel.db i, ← hrel.db j]
    exact C01_converged A (relS_fleetWF hrel) hq i j hi hj
  refine ⟨heq, fun hmi hmj => ?_⟩
  funext key
  rw [hmi.1 key, hmj.1 key, heq]

/-! ## (C) a concrete fleet of two shadow-mode sync loops -/

namespace LoopExample
open Ls.Loop.Witness (cfgS app)
open Ls.Loop.BoundWitness (cfgB cs2)

/-- an environment with an empty application DBI `app`, nothing ever written -/
def envA : Env := { dbis := [{ name := app, flags := 0, kvs := [] }], lastTxn := 0 }

def fleet0 : Fleet := fun _ => G.init envA []

def seg (next : Option (InstId × Nat)) (now : Nat) : Ev := .go { next := next, fails := 0, now := now }

/-- both instances start; "a" (instance 0) writes key 1 = "A", "b" (instance 1) writes key 1 = "B"
    (a conflict); "a" runs an iteration and uploads (capture at 30, blob `("a", 30)`), then "b" does
    (capture at 42, blob `("b", 42)`); "a" merges b's blob at 51, "b" merges a's blob at 61 -/
def evs : List (Nat × Ev) :=
  [(0, seg none 10), (1, seg none 11),
   (0, .app [.put app [1] [65]]), (1, .app [.put app [1] [66]]),
   (0, seg none 20), (0, seg none 21), (0, seg none 30), (0, seg none 31), (0, seg none 32),
   (1, seg none 40), (1, seg none 41), (1, seg none 42), (1, seg none 43), (1, seg none 44),
   (0, seg none 50), (0, seg (some ("b", 42)) 51),
   (1, seg none 60), (1, seg (some ("a", 30)) 61)]

/-- the configuration hypotheses of `C01_loop_fleet_refines_shadow_partial` -/
example : ∀ j, (cs2 j).txn.native = false ∧ (cs2 j).txn.hack = false ∧
    (cs2 j).txn.receiveOnly = false ∧ CfgByte (cs2 j).txn := by
  intro j
  unfold cs2
  split <;> decide +kernel

/-- the start environment satisfies the invariant and is mirrored (decidable forms) -/
theorem C01_example_envA : EnvInv envA ∧ Mirrored envA :=
  ⟨envInv_of_decidable (by decide +kernel) (by decide +kernel) (by decide +kernel) (by decide +kernel),
   mirrored_of_decidable (by decide +kernel) (by decide +kernel)⟩

example : RelS cs2 fleet0 { n := 2, db := fun _ => absShadow envA, bucket := [] } :=
  C01_loop_fleet_init_shadow cs2 2 (fun _ => envA) (fun _ => C01_example_envA.1) (fun _ => C01_example_envA.2)

/-- `app` is an application DBI name -/
theorem C01_example_app : isPrivate app = false := by decide +kernel

/-- the side conditions hold for the whole schedule -/
example : LoopRunOkS cs2 fleet0 evs :=
  ⟨⟨by decide +kernel, by decide +kernel, by decide +kernel, fun _ => C01_example_envA.2⟩,
   ⟨by decide +kernel, by decide +kernel, by decide +kernel, fun _ => C01_example_envA.2⟩,
   ⟨Or.inl ⟨app, [1], [65], rfl, C01_example_app, by decide⟩, by decide +kernel⟩,
   ⟨Or.inl ⟨app, [1], [66], rfl, C01_example_app, by decide⟩, by decide +kernel⟩,
   ⟨by decide +kernel, by decide +kernel, by decide +kernel, fun h => absurd h (by decide +kernel)⟩,
   ⟨by decide +kernel, by decide +kernel, by decide +kernel, fun h => absurd h (by decide +kernel)⟩,
   ⟨by decide +kernel, by decide +kernel, by decide +kernel, fun h => absurd h (by decide +kernel)⟩,
   ⟨by decide +kernel, by decide +kernel, by decide +kernel, fun h => absurd h (by decide +kernel)⟩,
   ⟨by decide +kernel, by decide +kernel, by decide +kernel, fun h => absurd h (by decide +kernel)⟩,
   ⟨by decide +kernel, by decide +kernel, by decide +kernel, fun h => absurd h (by decide +kernel)⟩,
   ⟨by decide +kernel, by decide +kernel, by decide +kernel, fun h => absurd h (by decide +kernel)⟩,
   ⟨by decide +kernel, by decide +kernel, by decide +kernel, fun h => absurd h (by decide +kernel)⟩,
   ⟨by decide +kernel, by decide +kernel, by decide +kernel, fun h => absurd h (by decide +kernel)⟩,
   ⟨by decide +kernel, by decide +kernel, by decide +kernel, fun h => absurd h (by decide +kernel)⟩,
   ⟨by decide +kernel, by decide +kernel, by decide +kernel, fun h => absurd h (by decide +kernel)⟩,
   ⟨by decide +kernel, by decide +kernel, by decide +kernel, fun h => absurd h (by decide +kernel)⟩,
   ⟨by decide +kernel, by decide +kernel, by decide +kernel, fun h => absurd h (by decide +kernel)⟩,
   ⟨by decide +kernel, by decide +kernel, by decide +kernel, fun h => absurd h (by decide +kernel)⟩,
   trivial⟩

/-- the run: both blobs reach the bucket, both loops end at the yield point after their merge,
    and both instances hold the same content — key 1 = "B", the later detection (42) wins the
    conflict — which both applications see -/
example :
    ((fleetRun cs2 fleet0 evs 0).bucket.map fun x => (x.inst, x.ts)) = [("a", 30), ("b", 42)] ∧
    absShadow (fleetRun cs2 fleet0 evs 0).st.env (app, [1]) = some ⟨42, false, [66]⟩ ∧
    absShadow (fleetRun cs2 fleet0 evs 1).st.env (app, [1]) = some ⟨42, false, [66]⟩ ∧
    appView (fleetRun cs2 fleet0 evs 0).st.env (app, [1]) = some [66] ∧
    appView (fleetRun cs2 fleet0 evs 1).st.env (app, [1]) = some [66] ∧
    (fleetRun cs2 fleet0 evs 0).gh.uncap = [] ∧ (fleetRun cs2 fleet0 evs 1).gh.uncap = [] := by
  decide +kernel

end LoopExample

/-! ## (D) a concrete fleet of two native-mode sync loops -/

namespace LoopExampleN
open Ls.Loop.Witness (cfgN app)
open Ls.Loop.BoundWitness (hv)
open LoopExample (seg)

def cfgNb : LoopCfg := { cfgN with own := "b" }
def csN : Nat → LoopCfg := fun j => if j = 0 then cfgN else cfgNb

def envN : Env := { dbis := [{ name := app, flags := 0, kvs := [] }], lastTxn := 0 }
def fleetN : Fleet := fun _ => G.init envN []

/-- "a" writes key 1 (a stored value with header, timestamp 7) before it starts; its start-up
    `SendOnce` dumps and stores blob `("a", 100)`; "b" starts and merges it -/
def evsN : List (Nat × Ev) :=
  [(0, .app [.put app [1] (hv 65)]),
   (0, seg none 100), (0, seg none 101), (0, seg none 102),
   (1, seg none 110), (1, seg (some ("a", 100)) 111)]

example : (∀ j, (csN j).txn.native = true) ∧ EnvWF envN := by
  refine ⟨fun j => ?_, by decide +kernel⟩
  unfold csN; split <;> decide +kernel

/-- the side conditions of `C01_loop_fleet_refines_native` hold for the whole schedule -/
example : LoopRunOkN csN fleetN evsN :=
  ⟨⟨app, [1], hv 65, rfl, by decide +kernel, by decide +kernel,
      ⟨{ name := app, flags := 0, kvs := [] }, by decide +kernel, by decide +kernel, by decide +kernel⟩,
      by decide +kernel⟩,
   loopOkN_go _ (by decide +kernel) (by decide +kernel),
   loopOkN_go _ (by decide +kernel) (by decide +kernel),
   loopOkN_go _ (by decide +kernel) (by decide +kernel),
   loopOkN_go _ (by decide +kernel) (by decide +kernel),
   loopOkN_go _ (by decide +kernel) (by decide +kernel),
   trivial⟩

/-- afterwards both instances hold the same logical content -/
example :
    ((fleetRun csN fleetN evsN 0).bucket.map fun x => (x.inst, x.ts)) = [("a", 100)] ∧
    absEnv (fleetRun csN fleetN evsN 0).st.env (app, [1]) = some ⟨7, false, [65]⟩ ∧
    absEnv (fleetRun csN fleetN evsN 1).st.env (app, [1]) = some ⟨7, false, [65]⟩ := by
  decide +kernel

end LoopExampleN

end Ls.C01
