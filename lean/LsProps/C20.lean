import LsLemmas.DupSort
import LsLemmas.TxnMirrorDup
/-
  C20 — The dupsort hack maps duplicate-key data reversibly or refuses it.
  The mirror-cycle part `C20_cycle` (at the end) is about the transaction model LsModel/Txn.lean;
  its helper lemmas are in LsLemmas/TxnMirrorDup.lean.
-/
namespace Ls.C20
open Ls Ls.Merge Ls.DupSort

/-- keys of 1..255 bytes: the pair is recovered exactly from its shadow key (the timestamp is
    not carried by the mapping; it is 0 on both sides of the mirror) -/
theorem C20_decode_encode (e : KV) (h1 : 1 ≤ e.key.length) (h2 : e.key.length ≤ 255) :
    ∃ r, encodeOne e = .ok r ∧
      decodeOne r = .ok { key := e.key, val := e.val, ts := 0, flags := e.flags } := by
  refine ⟨_, encodeOne_ok e h1 h2, ?_⟩
  exact decodeOne_encKey e.key e.val e.flags 0 h1 h2

/-- the shadow key always has a legal LMDB length -/
theorem C20_len (e r : KV) (h : encodeOne e = .ok r) : 6 ≤ r.key.length ∧ r.key.length ≤ 511 := by
  by_cases h1 : 1 ≤ e.key.length ∧ e.key.length ≤ 255
  · rw [encodeOne_ok e h1.1 h1.2] at h
    injection h with h; subst h
    exact encKey_length e.key e.val h1.1 h1.2
  · obtain ⟨err, he⟩ := encodeOne_refuse e (by omega)
    rw [he] at h; cases h

/-- empty keys and keys longer than 255 bytes are refused -/
theorem C20_refuse (e : KV) (h : e.key.length = 0 ∨ 255 < e.key.length) :
    ∃ err, encodeOne e = .error err := encodeOne_refuse e h

/-- If the whole duplicate-keys content is accepted, every (key, value) pair got its own shadow
    key — the shadow keys are strictly increasing (hence pairwise distinct, and in the order of the
    original pairs) — and decoding gives back exactly the original list of pairs. Otherwise the
    content is refused with an error: never a silently altered list. -/
theorem C20_encode_all (l r : List KV) (h : encodeAll l = .ok r) :
    r.length = l.length ∧
    List.Pairwise (fun a b => bcmp a.key b.key < 0) r ∧
    decodeAll r = .ok (l.map fun e => { e with ts := 0 }) := by
  obtain ⟨h1, _, h3, h4, _⟩ := encodeAllAux_spec [] l r h
  exact ⟨h1, h3, h4⟩

/-- two pairs whose shadow keys would collide (values agreeing on the part that fits) are refused -/
theorem C20_collision_refused (a b : KV) (rest : List KV)
    (ha : 1 ≤ a.key.length ∧ a.key.length ≤ 255) (hb : 1 ≤ b.key.length ∧ b.key.length ≤ 255)
    (hcol : encKey a.key a.val = encKey b.key b.val) :
    ∃ err, encodeAll (a :: b :: rest) = .error err := by
  unfold encodeAll
  simp only [encodeAllAux, encodeOne_ok a ha.1 ha.2, encodeOne_ok b hb.1 hb.2]
  split
  · exact ⟨_, rfl⟩
  · split
    · exact ⟨_, rfl⟩
    · rw [hcol, if_pos (bcmp_eq.mpr rfl)]
      exact ⟨_, rfl⟩

/-- non-vacuity: two values under one key are accepted and mapped to increasing shadow keys -/
example : ∃ r, encodeAll
    [{ key := [1], val := [2], ts := 0, flags := 0 },
     { key := [1], val := [3], ts := 0, flags := 0 }] = .ok r ∧ r.length = 2 :=
  ⟨_, rfl, rfl⟩

/-! ## the mirror cycle on a duplicate-keys DBI -/

open Ls.Lmdb Ls.Strategy Ls.Txn in
/-- **Mirror cycle.** Shadow mode with the dupsort hack. `d` is a duplicate-keys application DBI
    named `n` (not an integer-key DBI) whose content is a strictly increasing list of (key, value)
    pairs (`PairSorted`) with non-empty values; its shadow `shadowOf w n d` (the existing one, or a
    new empty one) is a byte-wise ordered DBI, sorted, with valid keys and well-formed values
    (header parses, deleted ⇒ no value), and `now` is above every timestamp stored in it (shared
    clock). If `mainToShadow` and then `shadowToMain` succeed (in particular the content was accepted
    by `DupSort.encodeAll`) with no remote change merged in between, the application DBI is
    afterwards EXACTLY what it was: the same set of pairs — name, flags and content. Moreover what
    the projection computed — `EmptyPut … true plainIter` of `decodeAll` of the shadow entries —
    is that content, which is the invariant `DupMirrorOK` that `C10_dupsort_rewrites_same_content`
    assumes. Other DBIs: `C11_capture_frame`, `C11_project`.
    Restriction (finding D7, known): values are non-empty — a zero-length duplicate is dropped by
    the projection like a zero-length value of an ordinary DBI (`C11_empty_value_witness`). -/
theorem C20_cycle (c : Txn.Cfg) (w w1 w2 : W) (txnID now cutoff : Nat) (n : Bytes) (d : Dbi)
    (hdist : DistinctNames w.dbis) (hh : c.hack = true)
    (h1 : mainToShadow c w txnID now cutoff = .ok w1) (h2 : shadowToMain c w1 = .ok w2)
    (hp : isPrivate n = false) (hd : findDbi w.dbis n = some d)
    (hdup : isDupSort d.flags = true) (hik : isIntKey d.flags = false)
    (hiks : isIntKey (shadowOf w n d).flags = false)
    (hps : PairSorted d.kvs) (hne : ∀ p ∈ d.kvs, p.2 ≠ [])
    (hS : Sorted false (shadowOf w n d).kvs) (hSK : DKeysOK (shadowOf w n d).kvs)
    (hwf : ∀ p ∈ (shadowOf w n d).kvs, ValWF p.2)
    (hclock : ∀ p ∈ (shadowOf w n d).kvs, ∀ hd v, Header.parse p.2 = .ok (hd, v) → hd.ts < now)
    (hn : now < two64) (ht : txnID < two64) :
    findDbi w2.dbis n = some d ∧
    (∃ enc, encodeAll (rawEntries d.kvs) = .ok enc) ∧
    DupMirrorOK w2.dbis d := by
  obtain ⟨a, b, sd, es, dec, h3, h4, h5, h6⟩ :=
    dup_cycle_env hdist hh h1 h2 hp hd hdup hik hiks hps hne hS hSK hwf hclock hn ht
  refine ⟨a, b, sd, es, dec, ?_, h4, h5, h6⟩
  rw [findDbi_name hd]; exact h3

open Ls.Lmdb Ls.Strategy Ls.Txn in
/-- a missing shadow of a non-integer-key duplicate-keys DBI is created as an ordinary byte-wise
    DBI (neither MDB_DUPSORT nor MDB_INTEGERKEY), empty: the hypotheses of `C20_cycle` about the
    shadow then hold trivially -/
theorem C20_cycle_new_shadow (w : W) (n : Bytes) (d : Dbi) (hik : isIntKey d.flags = false)
    (hs : findDbi w.dbis (shadowName n) = none) :
    isIntKey (shadowOf w n d).flags = false ∧ isDupSort (shadowOf w n d).flags = false ∧
    (shadowOf w n d).kvs = [] := by
  unfold shadowOf; rw [hs]
  exact ⟨by rw [← hik]; exact isIntKey_mask d.flags, isDupSort_mask d.flags, rfl⟩

/-- a duplicate-keys DBI "d" with two values under key 01 and one under key 02 -/
def exDupW : Txn.W :=
  { dbis := [{ name := [0x64], flags := 4, kvs := [([1], [0x0a]), ([1], [0x0b]), ([2], [0x0a])] }],
    dirty := false }

def exHack : Txn.Cfg := { native := false, hack := true, pad := false, receiveOnly := false, override := [] }

/-- non-vacuity: the cycle succeeds on the instance and gives back the same pairs; the shadow holds
    three distinct encoded keys -/
example :
    ((Txn.mainToShadow exHack exDupW 1 100 0).bind (Txn.shadowToMain exHack)).map
      (fun w => ((Txn.findDbi w.dbis [0x64]).map (·.kvs),
                 (Txn.findDbi w.dbis (Txn.shadowName [0x64])).map (·.kvs.length)))
      = .ok (some [([1], [0x0a]), ([1], [0x0b]), ([2], [0x0a])], some 3) := by
  decide +kernel

end Ls.C20
