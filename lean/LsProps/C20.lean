import LsLemmas.DupSort
/-
  C20 — The dupsort hack maps duplicate-key data reversibly or refuses it.
  (The mirror-cycle part `C20_cycle` lives with the transaction model: LsProps/C11.lean.)
-/
namespace Ls.C20
open Ls Ls.Merge Ls.DupSort

/-- keys of 1..255 bytes: the pair is recovered exactly from its shadow key (the timestamp is
    not carried by the mapping; it is 0 on both sides of the mirror) -/
theorem C20_decode_encode (e : KV) (h1 : 1 ≤ e.key.length) (h2 : e.key.length ≤ 255) :
    ∃ r, encodeOne e = .ok r ∧
      decodeOne r = .ok { key := e.key, val := e.val, ts := 0, flags := e.flags } := by
  refine ⟨_, encodeOne_ok e h1 h2, ?_⟩
  exact decodeOne_encKey e.key e.val e.flags 0 h1 h2

/-- the shadow key always has a legal LMDB length -/
theorem C20_len (e r : KV) (h : encodeOne e = .ok r) : 6 ≤ r.key.length ∧ r.key.length ≤ 511 := by
  by_cases h1 : 1 ≤ e.key.length ∧ e.key.length ≤ 255
  · rw [encodeOne_ok e h1.1 h1.2] at h
    injection h with h; subst h
    exact encKey_length e.key e.val h1.1 h1.2
  · obtain ⟨err, he⟩ := encodeOne_refuse e (by omega)
    rw [he] at h; cases h

/-- empty keys and keys longer than 255 bytes are refused -/
theorem C20_refuse (e : KV) (h : e.key.length = 0 ∨ 255 < e.key.length) :
    ∃ err, encodeOne e = .error err := encodeOne_refuse e h

theorem encodeAllAux_spec (prev : Bytes) (l r : List KV) (h : encodeAllAux prev l = .ok r) :
    r.length = l.length ∧
    (∀ x ∈ r, bcmp prev x.key < 0) ∧
    List.Pairwise (fun a b => bcmp a.key b.key < 0) r ∧
    decodeAll r = .ok (l.map fun e => { e with ts := 0 }) ∧
    (∀ e ∈ l, 1 ≤ e.key.length ∧ e.key.length ≤ 255) := by
  induction l generalizing prev r with
  | nil =>
    simp only [encodeAllAux] at h; injection h with h; subst h
    simp [decodeAll]
    rfl
  | cons e rest ih =>
    simp only [encodeAllAux] at h
    split at h
    · cases h
    · rename_i kv hkv
      split at h
      · cases h
      · split at h
        · cases h
        · split at h
          · cases h
          · rename_i hne hngt r' hr'
            injection h with h; subst h
            obtain ⟨hlen, hprev, hpw, hdec, hkeys⟩ := ih kv.key r' hr'
            have hlt : bcmp prev kv.key < 0 := by omega
            have hk : 1 ≤ e.key.length ∧ e.key.length ≤ 255 := by
              by_cases hh : 1 ≤ e.key.length ∧ e.key.length ≤ 255
              · exact hh
              · obtain ⟨err, he⟩ := encodeOne_refuse e (by omega)
                rw [he] at hkv; cases hkv
            have hkv' := encodeOne_ok e hk.1 hk.2
            rw [hkv'] at hkv; injection hkv with hkv
            refine ⟨by simp [hlen], ?_, ?_, ?_, ?_⟩
            · intro x hx
              rcases List.mem_cons.mp hx with hx | hx
              · subst hx; exact hlt
              · have := hprev x hx
                exact bcmp_lt.mpr (List.lt_trans (bcmp_lt.mp hlt) (bcmp_lt.mp this))
            · exact List.pairwise_cons.mpr ⟨hprev, hpw⟩
            · have hd := decodeOne_encKey e.key e.val e.flags 0 hk.1 hk.2
              rw [← hkv]
              simp only [decodeAll, List.mapM_cons, List.map_cons] at hdec ⊢
              rw [hd]
              rw [show (List.mapM decodeOne r') = _ from hdec]
              rfl
            · intro e' he'
              rcases List.mem_cons.mp he' with he' | he'
              · subst he'; exact hk
              · exact hkeys e' he'

/-- If the whole duplicate-keys content is accepted, every (key, value) pair got its own shadow
    key — the shadow keys are strictly increasing (hence pairwise distinct, and in the order of the
    original pairs) — and decoding gives back exactly the original list of pairs. Otherwise the
    content is refused with an error: never a silently altered list. -/
theorem C20_encode_all (l r : List KV) (h : encodeAll l = .ok r) :
    r.length = l.length ∧
    List.Pairwise (fun a b => bcmp a.key b.key < 0) r ∧
    decodeAll r = .ok (l.map fun e => { e with ts := 0 }) := by
  obtain ⟨h1, _, h3, h4, _⟩ := encodeAllAux_spec [] l r h
  exact ⟨h1, h3, h4⟩

/-- two pairs whose shadow keys would collide (values agreeing on the part that fits) are refused -/
theorem C20_collision_refused (a b : KV) (rest : List KV)
    (ha : 1 ≤ a.key.length ∧ a.key.length ≤ 255) (hb : 1 ≤ b.key.length ∧ b.key.length ≤ 255)
    (hcol : encKey a.key a.val = encKey b.key b.val) :
    ∃ err, encodeAll (a :: b :: rest) = .error err := by
  unfold encodeAll
  simp only [encodeAllAux, encodeOne_ok a ha.1 ha.2, encodeOne_ok b hb.1 hb.2]
  split
  · exact ⟨_, rfl⟩
  · split
    · exact ⟨_, rfl⟩
    · rw [hcol, if_pos (bcmp_eq.mpr rfl)]
      exact ⟨_, rfl⟩

/-- non-vacuity: two values under one key are accepted and mapped to increasing shadow keys -/
example : ∃ r, encodeAll
    [{ key := [1], val := [2], ts := 0, flags := 0 },
     { key := [1], val := [3], ts := 0, flags := 0 }] = .ok r ∧ r.length = 2 :=
  ⟨_, rfl, rfl⟩

end Ls.C20
