import LsModel.Bytes
import LsModel.Generated
import LsModel.Header
import LsModel.Merge
